#!/bin/sh
# Builds the framework offline from files on disk only.
cd "$(dirname "$0")" || exit 2
export GOFLAGS=-mod=mod GOPROXY=off GOSUMDB=off GOTOOLCHAIN=local
mkdir -p bin evidence replays .work
go build -o bin/check ./cmd/check || exit 2
go build -tags verif -o bin/simrun ./cmd/simrun || exit 2
go build -race -tags verif -o bin/simrun-race ./cmd/simrun || exit 2
echo "setup ok"
