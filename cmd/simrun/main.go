// simrun is the simulation worker: built from /repo's working tree with
// -tags verif (and -race where a scenario needs the race detector).
package main

import (
	"verif/internal/scen/c01"
	"verif/internal/scen/c10"
	"verif/internal/scen/c11"
	"verif/internal/scen/c12"
	"verif/internal/scen/c13"
	"verif/internal/scen/c14"
	"verif/internal/worker"
)

func main() {
	worker.Register(c01.Sequential{})
	worker.Register(c01.Concurrent{})
	worker.Register(c10.Scans{})
	worker.Register(c10.AddFields{})
	worker.Register(c10.March{})
	worker.Register(c10.March{Fast: true})
	worker.Register(c11.Scenario{})
	worker.Register(c12.Scenario{})
	worker.Register(c12.Scenario{Race: true})
	worker.Register(c13.Scenario{})
	worker.Register(c13.ServerScenario{})
	worker.Register(c14.Scenario{})
	worker.Main()
}
