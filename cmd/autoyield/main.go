// autoyield <repo> <outdir>: writes rewritten copies and overlay.json (debugging aid; the orchestrator calls the package directly).
package main

import (
	"encoding/json"
	"fmt"
	"os"
	"path/filepath"

	"verif/internal/autoyield"
)

func main() {
	rep, n, err := autoyield.Overlay(os.Args[1], os.Args[2])
	if err != nil {
		fmt.Println(err)
		os.Exit(2)
	}
	b, _ := json.MarshalIndent(map[string]any{"Replace": rep}, "", " ")
	os.WriteFile(filepath.Join(os.Args[2], "overlay.json"), b, 0o644)
	fmt.Printf("%d yields inserted in %d files\n", n, len(rep))
}
