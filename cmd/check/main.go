// check is the orchestrator: ./check quick|thorough <ID>, ./check replay <file>.
package main

import (
	"fmt"
	"os"

	"verif/internal/orch"
)

func main() {
	if len(os.Args) < 3 {
		fmt.Println("usage: check quick|thorough <property-id> | check replay <file>")
		os.Exit(2)
	}
	switch os.Args[1] {
	case "quick", "thorough":
		code := orch.Check(os.Args[1], os.Args[2])
		orch.CleanupRaceDir()
		os.Exit(code)
	case "replay":
		code := orch.Replay(os.Args[2], false)
		orch.CleanupRaceDir()
		os.Exit(code)
	default:
		fmt.Println("unknown command", os.Args[1])
		os.Exit(2)
	}
}
