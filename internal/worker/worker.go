// Package worker is the body of the simrun binary: it executes simulated runs
// of registered scenarios, replays and shrinks recorded runs.
package worker

import (
	"bufio"
	"encoding/json"
	"flag"
	"fmt"
	"os"
	"os/exec"
	"regexp"
	"runtime"
	"strings"
	"time"

	"verif/internal/choice"
	"verif/internal/detsched"
	"verif/internal/shrink"
	"verif/internal/sim"
	"verif/internal/watchdog"
)

// Exit codes of the worker.
const (
	ExitOK         = 0
	ExitViolation  = 1  // replay: the recorded class was reproduced
	ExitTrouble    = 20 // harness trouble (not 2: the Go runtime itself exits with 2 on fatal errors and unrecovered panics)
	ExitRestart    = 3  // run: stopped early (leaked goroutine / race report); resume after the last record
	ExitOtherClass = 4  // replay: a violation of another class
)

var registry []sim.Scenario

func Register(s sim.Scenario) { registry = append(registry, s) }

func find(prop, name string) sim.Scenario {
	for _, s := range registry {
		if s.Prop() == prop && (name == "" || s.Name() == name) {
			return s
		}
	}
	return nil
}

// RaceEnabled is set by race.go / norace.go.
var RaceEnabled bool

func raceLogPath() string {
	for _, kv := range strings.Fields(os.Getenv("GORACE")) {
		if strings.HasPrefix(kv, "log_path=") {
			return strings.TrimPrefix(kv, "log_path=") + "." + fmt.Sprint(os.Getpid())
		}
	}
	return ""
}

func fileSize(p string) int64 {
	if p == "" {
		return 0
	}
	st, err := os.Stat(p)
	if err != nil {
		return 0
	}
	return st.Size()
}

var raceFn = regexp.MustCompile(`(?m)^  ([^\s].*)\(\)\n\s+(\S+):(\d+)`)

// raceClass normalises a ThreadSanitizer report to the two racing
// function names (first frame of each of the two accesses).
func raceClass(report string) (string, string) {
	blocks := regexp.MustCompile(`(?m)^(Write|Read|Previous write|Previous read)[^\n]*\n((?:  .*\n|\s+.*\n)+?)\n`).FindAllStringSubmatch(report, -1)
	var fns []string
	for _, b := range blocks {
		// the first frame that is not the Go runtime or reflection: that is
		// where the program (not memmove) touches the memory
		var m []string
		for _, cand := range raceFn.FindAllStringSubmatch(b[2], -1) {
			if strings.HasPrefix(cand[1], "runtime.") || strings.HasPrefix(cand[1], "reflect.") || strings.HasPrefix(cand[1], "internal/") {
				continue
			}
			m = cand
			break
		}
		if m == nil {
			m = raceFn.FindStringSubmatch(b[2])
		}
		if m != nil {
			fn := m[1]
			file := m[2]
			if i := strings.LastIndex(file, "/"); i >= 0 {
				file = file[i+1:]
			}
			fns = append(fns, fmt.Sprintf("%s@%s:%s", shortFn(fn), file, m[3]))
		}
		if len(fns) == 2 {
			break
		}
	}
	if len(fns) == 2 && fns[0] > fns[1] {
		fns[0], fns[1] = fns[1], fns[0]
	}
	first := report
	if i := strings.Index(first, "=================="); i >= 0 {
		first = first[i:]
	}
	if len(first) > 6000 {
		first = first[:6000]
	}
	return "race/" + strings.Join(fns, "|"), first
}

func shortFn(fn string) string {
	// drop generic instantiations "[...]" (possibly nested, possibly cut by
	// the symbolizer), package paths and closure numbering: keep the
	// trailing identifier(s) only
	depth := 0
	var sb strings.Builder
	for _, r := range fn {
		switch {
		case r == '[':
			depth++
		case r == ']':
			if depth > 0 {
				depth--
			}
		case depth == 0:
			sb.WriteRune(r)
		}
	}
	fn = sb.String()
	fn = regexp.MustCompile(`\.func\d+(\.\d+)*`).ReplaceAllString(fn, ".func")
	// the last path element, then its last two dotted parts
	if i := strings.LastIndex(fn, "/"); i >= 0 {
		fn = fn[i+1:]
	}
	if i := strings.LastIndex(fn, ")."); i >= 0 {
		fn = fn[i+2:]
	}
	fn = strings.Trim(fn, "()*{}; ")
	return fn
}

// execute runs one scenario run and post-processes race reports.
func execute(s sim.Scenario, c choice.Chooser, opt sim.Options) (res sim.Result, mustExit bool) {
	rl := raceLogPath()
	before := fileSize(rl)
	leakedBefore := watchdog.Leaked
	res = s.Run(c, opt)
	if after := fileSize(rl); after > before {
		mustExit = true
		b, _ := os.ReadFile(rl)
		if int64(len(b)) >= after {
			b = b[before:]
		}
		class, first := raceClass(string(b))
		res.Count("race-reports", strings.Count(string(b), "WARNING: DATA RACE"))
		if res.Violation != nil && !strings.HasPrefix(res.Violation.Class, "race/") {
			res.Count("also:"+res.Violation.Class, 1)
		}
		if res.Violation == nil || !strings.HasPrefix(res.Violation.Class, "race/") {
			// a race report outranks its consequences: it is the
			// root cause and has the stabler class
			res.Violation = &sim.Violation{Class: class, Msg: "data race reported by the race detector", Detail: first}
		}
	}
	if watchdog.Leaked > leakedBefore || detsched.Dirty {
		// goroutines were left behind (a hung call, a deadlocked or leaking
		// schedule): this process must not execute another run
		mustExit = true
	}
	if res.Evals == 0 {
		res.Evals = 1
	}
	return
}

func emit(w *bufio.Writer, r sim.Record) {
	b, err := json.Marshal(r)
	if err != nil {
		fmt.Fprintln(os.Stderr, "marshal:", err)
		os.Exit(ExitTrouble)
	}
	w.Write(b)
	w.WriteByte('\n')
	w.Flush()
}

// stdout is the worker's own output channel (records, replay reports). The
// process-wide os.Stdout is pointed at the null device in Main: library code
// under test may print (the edit server's handlers print the stack of a
// recovered panic), which must not end up between the records.
var stdout = os.Stdout

func Main() {
	if null, err := os.OpenFile(os.DevNull, os.O_WRONLY, 0); err == nil {
		os.Stdout = null
	}
	if len(os.Args) < 2 {
		fmt.Fprintln(os.Stderr, "usage: simrun run|replay|shrink|list ...")
		os.Exit(ExitTrouble)
	}
	switch os.Args[1] {
	case "list":
		for _, s := range registry {
			fmt.Fprintf(stdout, "%s %s isolated=%v race=%v\n", s.Prop(), s.Name(), s.Isolated(), s.NeedsRace())
		}
	case "run":
		cmdRun(os.Args[2:])
	case "replay":
		cmdReplay(os.Args[2:])
	case "shrink":
		cmdShrink(os.Args[2:])
	default:
		fmt.Fprintln(os.Stderr, "unknown command", os.Args[1])
		os.Exit(ExitTrouble)
	}
}

func cmdRun(args []string) {
	fs := flag.NewFlagSet("run", flag.ExitOnError)
	prop := fs.String("prop", "", "")
	scen := fs.String("scen", "", "")
	seed := fs.Int64("seed", 1, "")
	from := fs.Int("from", 0, "")
	to := fs.Int("to", 1, "")
	tier := fs.String("tier", "quick", "")
	samples := fs.Int("samples", 0, "keep a readable sample for the first k runs")
	traces := fs.Bool("traces", false, "emit the trace of every run (determinism test)")
	deadline := fs.Int64("deadline", 0, "unix seconds after which no new run is started")
	journal := fs.String("journal", "", "append every draw to this file as it is made (crash forensics)")
	fs.Parse(args)
	s := find(*prop, *scen)
	if s == nil {
		fmt.Fprintf(os.Stderr, "no scenario %s/%s\n", *prop, *scen)
		os.Exit(ExitTrouble)
	}
	if s.NeedsRace() && !RaceEnabled {
		fmt.Fprintf(os.Stderr, "scenario %s/%s needs a -race build\n", *prop, *scen)
		os.Exit(ExitTrouble)
	}
	out := bufio.NewWriter(stdout)
	for run := *from; run < *to; run++ {
		if *deadline > 0 && time.Now().Unix() >= *deadline {
			break
		}
		var c choice.Chooser = choice.NewRandom(choice.Mix(*seed, s.Prop()+"/"+s.Name(), run))
		if *journal != "" {
			jf, err := os.OpenFile(*journal, os.O_CREATE|os.O_WRONLY|os.O_TRUNC, 0o644)
			if err != nil {
				fmt.Fprintln(os.Stderr, err)
				os.Exit(ExitTrouble)
			}
			c = &journalChooser{Chooser: c, f: jf}
		}
		opt := sim.Options{Tier: *tier, WantSample: run-*from < *samples}
		t0 := time.Now()
		res, mustExit := execute(s, c, opt)
		rec := sim.Record{Prop: s.Prop(), Scenario: s.Name(), Seed: *seed, Run: run, Tier: *tier, Result: res, Race: RaceEnabled, WallUS: time.Since(t0).Microseconds()}
		if res.Violation != nil || *traces {
			rec.Trace = c.Trace()
		}
		emit(out, rec)
		if mustExit {
			out.Flush()
			os.Exit(ExitRestart)
		}
	}
	out.Flush()
	os.Exit(ExitOK)
}

// journalChooser writes every draw through to a file before returning it.
type journalChooser struct {
	choice.Chooser
	f *os.File
}

func (j *journalChooser) Intn(label string, n int) int {
	v := j.Chooser.Intn(label, n)
	b, _ := json.Marshal(choice.Entry{L: label, N: n, V: v})
	j.f.Write(append(b, '\n'))
	return v
}

func readRecord(path string) sim.Record {
	b, err := os.ReadFile(path)
	if err != nil {
		fmt.Fprintln(os.Stderr, err)
		os.Exit(ExitTrouble)
	}
	var rec sim.Record
	if err := json.Unmarshal(b, &rec); err != nil {
		fmt.Fprintln(os.Stderr, "bad replay file:", err)
		os.Exit(ExitTrouble)
	}
	return rec
}

func classOf(r sim.Result) string {
	if r.Violation == nil {
		return ""
	}
	return r.Violation.Class
}

// replayOnce executes vals in this process.
func replayOnce(s sim.Scenario, vals []int, tier string) (sim.Result, []choice.Entry, bool) {
	c := choice.NewReplay(vals)
	res, mustExit := execute(s, c, sim.Options{Tier: tier, WantSample: true})
	return res, c.Trace(), mustExit
}

func cmdReplay(args []string) {
	fs := flag.NewFlagSet("replay", flag.ExitOnError)
	file := fs.String("file", "", "")
	tier := fs.String("tier", "", "")
	quiet := fs.Bool("quiet", false, "")
	valsOnly := fs.Bool("emit", false, "emit the resulting record as JSON on stdout")
	fs.Parse(args)
	rec := readRecord(*file)
	s := find(rec.Prop, rec.Scenario)
	if s == nil {
		fmt.Fprintf(os.Stderr, "no scenario %s/%s\n", rec.Prop, rec.Scenario)
		os.Exit(ExitTrouble)
	}
	if s.NeedsRace() && !RaceEnabled {
		fmt.Fprintf(os.Stderr, "scenario %s/%s needs a -race build\n", rec.Prop, rec.Scenario)
		os.Exit(ExitTrouble)
	}
	t := *tier
	if t == "" {
		t = rec.Tier
	}
	if t == "" {
		t = "quick"
	}
	res, trace, _ := replayOnce(s, choice.Values(rec.Trace), t)
	out := sim.Record{Prop: rec.Prop, Scenario: rec.Scenario, Seed: rec.Seed, Run: rec.Run, Tier: t, Result: res, Trace: trace, Race: RaceEnabled}
	if *valsOnly {
		w := bufio.NewWriter(stdout)
		emit(w, out)
	} else if !*quiet {
		if res.Violation != nil {
			fmt.Fprintf(stdout, "replay: violation class=%s\n  %s\n", res.Violation.Class, res.Violation.Msg)
			if db, err := json.MarshalIndent(res.Violation.Detail, "  ", " "); err == nil && res.Violation.Detail != nil {
				d := string(db)
				if len(d) > 6000 {
					d = d[:6000] + "\n  ... (see the replay file)"
				}
				fmt.Fprintf(stdout, "  %s\n", d)
			}
		} else {
			fmt.Fprintln(stdout, "replay: no violation")
		}
	}
	want := classOf(rec.Result)
	got := classOf(res)
	switch {
	case got == "":
		os.Exit(ExitOK)
	case got == want || want == "":
		os.Exit(ExitViolation)
	default:
		os.Exit(ExitOtherClass)
	}
}

func cmdShrink(args []string) {
	fs := flag.NewFlagSet("shrink", flag.ExitOnError)
	file := fs.String("file", "", "")
	outPath := fs.String("out", "", "")
	budget := fs.Int("budget", 60, "seconds")
	tries := fs.Int("tries", 4000, "")
	tier := fs.String("tier", "quick", "")
	fs.Parse(args)
	rec := readRecord(*file)
	s := find(rec.Prop, rec.Scenario)
	if s == nil {
		fmt.Fprintf(os.Stderr, "no scenario %s/%s\n", rec.Prop, rec.Scenario)
		os.Exit(ExitTrouble)
	}
	want := classOf(rec.Result)
	if want == "" {
		fmt.Fprintln(os.Stderr, "record has no violation")
		os.Exit(ExitTrouble)
	}
	isolated := s.Isolated() || strings.Contains(want, "/hang") || strings.HasPrefix(want, "race/")
	var lastRes sim.Result
	self, _ := os.Executable()
	tmp, _ := os.CreateTemp("", "shrinkcand-*.json")
	tmp.Close()
	defer os.Remove(tmp.Name())
	test := func(vals []int) ([]choice.Entry, bool) {
		if !isolated {
			res, trace, _ := replayOnce(s, vals, *tier)
			if classOf(res) == want {
				lastRes = res
				return trace, true
			}
			return trace, false
		}
		// fresh process per candidate
		cand := sim.Record{Prop: rec.Prop, Scenario: rec.Scenario, Seed: rec.Seed, Run: rec.Run, Tier: *tier, Result: rec.Result}
		for _, v := range vals {
			cand.Trace = append(cand.Trace, choice.Entry{V: v})
		}
		b, _ := json.Marshal(cand)
		os.WriteFile(tmp.Name(), b, 0o644)
		cmd := exec.Command(self, "replay", "-file", tmp.Name(), "-tier", *tier, "-emit")
		cmd.Env = os.Environ()
		outb, _ := cmd.Output()
		if cmd.Process != nil {
			for _, kv := range strings.Fields(os.Getenv("GORACE")) {
				if strings.HasPrefix(kv, "log_path=") {
					os.Remove(strings.TrimPrefix(kv, "log_path=") + "." + fmt.Sprint(cmd.Process.Pid))
				}
			}
		}
		var got sim.Record
		line := outb
		if i := strings.IndexByte(string(outb), '\n'); i >= 0 {
			line = outb[:i]
		}
		if err := json.Unmarshal(line, &got); err != nil {
			return nil, false
		}
		// collect a race report of the child, if any
		if classOf(got.Result) == want {
			lastRes = got.Result
			return got.Trace, true
		}
		return got.Trace, false
	}
	// the starting point must fail (in isolated mode this also refreshes labels)
	start := rec.Trace
	min, st := shrink.Minimize(start, test, *tries, time.Now().Add(time.Duration(*budget)*time.Second))
	// final confirmation run to get the result that belongs to min
	tr, ok := test(choice.Values(min))
	final := rec
	final.Tier = *tier
	if ok {
		final.Trace = tr
		final.Result = lastRes
		final.Minimised = true
	} else {
		// keep the original: shrinking must never lose the failure
		final.Trace = rec.Trace
	}
	final.ShrinkTries = st.Tries
	final.OrigLen = len(rec.Trace)
	b, _ := json.MarshalIndent(final, "", " ")
	if err := os.WriteFile(*outPath, b, 0o644); err != nil {
		fmt.Fprintln(os.Stderr, err)
		os.Exit(ExitTrouble)
	}
	fmt.Fprintf(os.Stderr, "shrink: %d -> %d draws in %d tries (isolated=%v, GOMAXPROCS=%d)\n", len(rec.Trace), len(final.Trace), st.Tries, isolated, runtime.GOMAXPROCS(0))
}
