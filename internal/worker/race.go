//go:build race

package worker

func init() { RaceEnabled = true }
