// Package gen generates small meshes from the choice stream. Smaller draws
// give smaller / simpler meshes.
package gen

import (
	"fmt"
	"math"

	"github.com/EliCDavis/polyform/modeling"
	"github.com/EliCDavis/vector/vector2"
	"github.com/EliCDavis/vector/vector3"
	"github.com/EliCDavis/vector/vector4"

	"verif/internal/choice"
)

// Float draws a finite float64 that is exactly representable as float32 (so
// that float32 codecs round-trip it) with varied textual length.
// Wild, when set, lets Float produce NaN and infinities now and then (valid
// float64 values a mesh attribute may hold, e.g. normals of a zero-area
// triangle). Set by scenarios whose oracle compares bit patterns.
var Wild bool

func Float(c choice.Chooser, label string) float64 {
	if Wild {
		switch c.Intn(label+":wild", 60) {
		case 57:
			return math.NaN()
		case 58:
			return math.Inf(1)
		case 59:
			return math.Inf(-1)
		}
	}
	switch c.Intn(label+":k", 6) {
	case 0:
		return float64(c.Intn(label, 5))
	case 1:
		return float64(c.Intn(label, 21)-10) / 2
	case 2:
		return float64(float32(float64(c.Intn(label, 2001)-1000) / 100))
	case 3:
		return float64(math.Float32frombits(0x3f000000 + uint32(c.Intn(label, 1<<22))))
	case 4:
		return -float64(float32(float64(c.Intn(label, 100000)) / 7))
	default:
		return float64(float32(float64(c.Intn(label, 1<<20)) * 1e-3))
	}
}

// Unit draws a value in [0,1] on a 1/255 grid (colours).
func Unit(c choice.Chooser, label string) float64 {
	return float64(c.Intn(label, 256)) / 255
}

func V3(c choice.Chooser, l string) vector3.Float64 {
	return vector3.New(Float(c, l), Float(c, l), Float(c, l))
}
func V2(c choice.Chooser, l string) vector2.Float64 { return vector2.New(Float(c, l), Float(c, l)) }
func V4(c choice.Chooser, l string) vector4.Float64 {
	return vector4.New(Float(c, l), Float(c, l), Float(c, l), Float(c, l))
}

// MeshSpec says what to generate.
type MeshSpec struct {
	Topo      modeling.Topology
	MaxVerts  int
	MaxPrims  int
	Unwelded  bool // indices are 0..n-1
	V1, V2    []string
	V3, V4    []string
	UnitNames map[string]bool // attributes whose values are colours in [0,1]
}

// Arrays generates attribute arrays of length n.
func F1s(c choice.Chooser, l string, n int, unit bool) []float64 {
	o := make([]float64, n)
	for i := range o {
		if unit {
			o[i] = Unit(c, l)
		} else {
			o[i] = Float(c, l)
		}
	}
	return o
}
func F2s(c choice.Chooser, l string, n int) []vector2.Float64 {
	o := make([]vector2.Float64, n)
	for i := range o {
		o[i] = V2(c, l)
	}
	return o
}
func F3s(c choice.Chooser, l string, n int, unit bool) []vector3.Float64 {
	o := make([]vector3.Float64, n)
	for i := range o {
		if unit {
			o[i] = vector3.New(Unit(c, l), Unit(c, l), Unit(c, l))
		} else {
			o[i] = V3(c, l)
		}
	}
	return o
}
func F4s(c choice.Chooser, l string, n int, unit bool) []vector4.Float64 {
	o := make([]vector4.Float64, n)
	for i := range o {
		if unit {
			o[i] = vector4.New(Unit(c, l), Unit(c, l), Unit(c, l), Unit(c, l))
		} else {
			o[i] = V4(c, l)
		}
	}
	return o
}

// Mesh builds a mesh per spec. The slices handed to the library are never
// touched again by the harness.
func Mesh(c choice.Chooser, s MeshSpec) modeling.Mesh {
	var n int
	var indices []int
	switch s.Topo {
	case modeling.TriangleTopology:
		prims := 1 + c.Intn("gen:prims", s.MaxPrims)
		if s.Unwelded {
			n = prims * 3
			indices = make([]int, n)
			for i := range indices {
				indices[i] = i
			}
		} else {
			n = 3 + c.Intn("gen:verts", max(1, s.MaxVerts-2))
			indices = make([]int, prims*3)
			for i := range indices {
				indices[i] = c.Intn("gen:idx", n)
			}
		}
	default:
		n = 1 + c.Intn("gen:verts", s.MaxVerts)
		if s.Topo == modeling.LineStripTopology && n < 2 {
			n = 2
		}
		indices = make([]int, n)
		for i := range indices {
			indices[i] = i
		}
	}
	m := modeling.NewMesh(s.Topo, indices)
	for _, a := range s.V3 {
		m = m.SetFloat3Attribute(a, F3s(c, "gen:v3", n, s.UnitNames[a]))
	}
	for _, a := range s.V1 {
		m = m.SetFloat1Attribute(a, F1s(c, "gen:v1", n, s.UnitNames[a]))
	}
	for _, a := range s.V2 {
		m = m.SetFloat2Attribute(a, F2s(c, "gen:v2", n))
	}
	for _, a := range s.V4 {
		m = m.SetFloat4Attribute(a, F4s(c, "gen:v4", n, s.UnitNames[a]))
	}
	return m
}

func max(a, b int) int {
	if a > b {
		return a
	}
	return b
}

// Subset draws a subset of names (the empty subset for an all-zero record).
func Subset(c choice.Chooser, label string, names []string) []string {
	var out []string
	for _, n := range names {
		if choice.Bool(c, fmt.Sprintf("%s:%s", label, n)) {
			out = append(out, n)
		}
	}
	return out
}
