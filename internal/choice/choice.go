// Package choice is the single source of nondeterminism of every simulated
// run: generated sizes and values, operations, scheduling decisions, stream
// cuts and chunkings, "map order" permutations and swarm knobs are all drawn
// through a Chooser. A run is a pure function of the integer sequence the
// chooser hands out (and of the code under test), which is what makes replay
// and shrinking possible.
package choice

import (
	"fmt"
	"hash/fnv"
)

// Entry is one recorded decision: label, exclusive bound, value handed out.
type Entry struct {
	L string `json:"l"`
	N int    `json:"n"`
	V int    `json:"v"`
}

// Chooser hands out integers in [0,n). Smaller values must mean simpler
// behaviour in every generator (0 = no fault, first runnable task, smallest
// size, stop generating) because that is the direction the shrinker moves in.
type Chooser interface {
	Intn(label string, n int) int
	// Trace returns the effective decisions taken so far.
	Trace() []Entry
}

// ---------------------------------------------------------------- PRNG

type splitmix struct{ s uint64 }

func (r *splitmix) next() uint64 {
	r.s += 0x9e3779b97f4a7c15
	z := r.s
	z = (z ^ (z >> 30)) * 0xbf58476d1ce4e5b9
	z = (z ^ (z >> 27)) * 0x94d049bb133111eb
	return z ^ (z >> 31)
}

// Mix derives the seed of one run from the global seed, the property id and
// the run index.
func Mix(seed int64, prop string, run int) uint64 {
	h := fnv.New64a()
	fmt.Fprintf(h, "%d/%s/%d", seed, prop, run)
	r := splitmix{h.Sum64()}
	r.next()
	return r.next()
}

// Random is the seeded chooser.
type Random struct {
	r     splitmix
	trace []Entry
}

func NewRandom(seed uint64) *Random { return &Random{r: splitmix{seed}} }

func (c *Random) Intn(label string, n int) int {
	if n <= 1 {
		// still recorded: keeps replay aligned when bounds depend on state
		c.trace = append(c.trace, Entry{label, n, 0})
		return 0
	}
	v := int(c.r.next() % uint64(n))
	c.trace = append(c.trace, Entry{label, n, v})
	return v
}

func (c *Random) Trace() []Entry { return c.trace }

// ---------------------------------------------------------------- replay

// Replay returns recorded values in order; a value that is out of range for
// the bound asked now is clamped, and an exhausted record yields 0. Any
// integer sequence therefore denotes a valid run, which is what lets the
// shrinker edit sequences freely.
type Replay struct {
	vals  []int
	pos   int
	trace []Entry
	// Overrun counts draws past the end of the record.
	Overrun int
}

func NewReplay(vals []int) *Replay { return &Replay{vals: vals} }

func (c *Replay) Intn(label string, n int) int {
	v := 0
	if c.pos < len(c.vals) {
		v = c.vals[c.pos]
	} else {
		c.Overrun++
	}
	c.pos++
	if n <= 1 {
		v = 0
	} else if v >= n {
		v = n - 1
	} else if v < 0 {
		v = 0
	}
	c.trace = append(c.trace, Entry{label, n, v})
	return v
}

func (c *Replay) Trace() []Entry { return c.trace }

// Values extracts the integer sequence of a trace.
func Values(t []Entry) []int {
	out := make([]int, len(t))
	for i, e := range t {
		out[i] = e.V
	}
	return out
}

// ---------------------------------------------------------------- helpers

// Bool draws a coin; 0 (false) is the simple outcome.
func Bool(c Chooser, label string) bool { return c.Intn(label, 2) == 1 }

// OneIn is true with probability 1/n; false is the simple outcome.
func OneIn(c Chooser, label string, n int) bool { return c.Intn(label, n) == n-1 && n > 0 }

// Range draws from [lo,hi].
func Range(c Chooser, label string, lo, hi int) int {
	if hi < lo {
		hi = lo
	}
	return lo + c.Intn(label, hi-lo+1)
}

// Pick draws an index weighted by w (w[i] >= 0, sum > 0). Index 0 should be
// the simplest alternative.
func Pick(c Chooser, label string, w []int) int {
	sum := 0
	for _, x := range w {
		sum += x
	}
	if sum <= 0 {
		return 0
	}
	v := c.Intn(label, sum)
	for i, x := range w {
		if v < x {
			return i
		}
		v -= x
	}
	return len(w) - 1
}

// Perm draws a permutation of n elements (identity for an all-zero record).
func Perm(c Chooser, label string, n int) []int {
	p := make([]int, n)
	for i := range p {
		p[i] = i
	}
	for i := 0; i < n-1; i++ {
		j := i + c.Intn(label, n-i)
		p[i], p[j] = p[j], p[i]
	}
	return p
}

// Hash64 is the hash used for signatures all over the harness.
func Hash64(parts ...string) uint64 {
	h := fnv.New64a()
	for _, p := range parts {
		h.Write([]byte(p))
		h.Write([]byte{0})
	}
	return h.Sum64()
}
