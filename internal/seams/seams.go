//go:build verif

// Package seams connects the verif-tagged hooks of /repo to the harness.
package seams

import (
	"sort"

	"github.com/EliCDavis/polyform/generator/parameter"
	"github.com/EliCDavis/polyform/nodes"

	"verif/internal/choice"
	"verif/internal/detsched"
)

// mapOrder is the chooser that decides "map iteration order" in
// nodes.Struct.Dependencies for the current (sequential) run; nil means
// canonical (sorted) order.
var mapOrder choice.Chooser

// MapOrderCalls counts permutation decisions taken.
var MapOrderCalls int

// SetMapOrder installs the chooser for the current run (nil: canonical).
// Only sequential scenarios may install one: the chooser is not
// goroutine-safe.
func SetMapOrder(c choice.Chooser) { mapOrder = c }

type sorter struct {
	n    int
	less func(i, j int) bool
	swap func(i, j int)
}

func (s sorter) Len() int           { return s.n }
func (s sorter) Less(i, j int) bool { return s.less(i, j) }
func (s sorter) Swap(i, j int)      { s.swap(i, j) }

func init() {
	// call sites for these two are inserted mechanically (internal/autoyield)
	nodes.VerifYield = func(site string) { detsched.Yield(site, 0) }
	parameter.VerifYield = func(site string) { detsched.Yield(site, 0) }
	nodes.VerifPermute = func(n int, less func(i, j int) bool, swap func(i, j int)) {
		if n < 2 {
			return
		}
		sort.Stable(sorter{n, less, swap})
		c := mapOrder
		if c == nil {
			return
		}
		MapOrderCalls++
		// one draw encodes a permutation of the first min(n,6) positions
		k := n
		if k > 6 {
			k = 6
		}
		f := 1
		for i := 2; i <= k; i++ {
			f *= i
		}
		r := c.Intn("maporder", f)
		for i := 0; i < k-1; i++ {
			span := k - i
			j := i + r%span
			r /= span
			if j != i {
				swap(i, j)
			}
		}
	}
}
