// Package autoyield rewrites copies of selected polyform source files so that
// every synchronisation operation is preceded by a scheduling point
// (verifYield). The copies are used through `go build -overlay`; /repo itself
// is not modified.
//
// Why: the hand-placed hooks cover the synchronisation the pinned tree has.
// A change that *adds* or *moves* synchronisation (a narrowed lock, a new
// atomic, a second channel) would otherwise run serialised at the granularity
// of the old hooks and its bad interleavings could never be scheduled. With
// the rewrite, whatever synchronisation the tree under test contains gets its
// scheduling points mechanically: before every Lock/RLock/Wait/atomic
// operation/channel operation/select/close, after every go statement.
package autoyield

import (
	"bytes"
	"fmt"
	"go/ast"
	"go/parser"
	"go/printer"
	"go/token"
	"os"
	"path/filepath"
	"strings"
)

// Packages (relative to the repo root) whose files are rewritten. Each has a
// verifYield(site string) function under the verif tag.
var Packages = []string{"modeling", "modeling/marching", "generator/graph", "generator/parameter", "nodes"}

// methods that are scheduling-relevant, per kind of synchronisation object
var methodsOf = map[string]map[string]bool{
	"mutex":     {"Lock": true, "RLock": true, "TryLock": true, "TryRLock": true, "Unlock": true, "RUnlock": true},
	"waitgroup": {"Wait": true},
	"cond":      {"Wait": true, "Signal": true, "Broadcast": true},
	"once":      {"Do": true},
	"atomic":    {"Load": true, "Store": true, "Add": true, "Swap": true, "CompareAndSwap": true, "And": true, "Or": true},
	"map":       {"Load": true, "Store": true, "LoadOrStore": true, "LoadAndDelete": true, "Delete": true, "Range": true, "Swap": true, "CompareAndSwap": true},
}

// kindOfType maps a type expression to a kind of synchronisation object,
// given the local names of the sync and sync/atomic imports.
func kindOfType(t ast.Expr, syncNames, atomicNames map[string]bool) string {
	for {
		switch v := t.(type) {
		case *ast.StarExpr:
			t = v.X
			continue
		case *ast.IndexExpr: // atomic.Pointer[T]
			t = v.X
			continue
		case *ast.SelectorExpr:
			id, ok := v.X.(*ast.Ident)
			if !ok {
				return ""
			}
			if syncNames[id.Name] {
				switch v.Sel.Name {
				case "Mutex", "RWMutex":
					return "mutex"
				case "WaitGroup":
					return "waitgroup"
				case "Cond":
					return "cond"
				case "Once":
					return "once"
				case "Map":
					return "map"
				}
			}
			if atomicNames[id.Name] {
				return "atomic"
			}
			return ""
		case *ast.ChanType:
			return "chan"
		case *ast.CallExpr: // make(chan T, n)
			if id, ok := v.Fun.(*ast.Ident); ok && id.Name == "make" && len(v.Args) > 0 {
				if _, ok := v.Args[0].(*ast.ChanType); ok {
					return "chan"
				}
			}
			return ""
		case *ast.CompositeLit:
			t = v.Type
			continue
		case *ast.UnaryExpr: // &sync.Mutex{}
			t = v.X
			continue
		default:
			return ""
		}
	}
}

// collect finds the names of struct fields and variables of a package that
// hold synchronisation objects (syntactic, no type checking).
func collect(files []*ast.File) map[string]string {
	kinds := map[string]string{}
	for _, f := range files {
		syncNames, atomicNames := map[string]bool{}, map[string]bool{}
		for _, im := range f.Imports {
			path := strings.Trim(im.Path.Value, "\"")
			name := path[strings.LastIndex(path, "/")+1:]
			if im.Name != nil {
				name = im.Name.Name
			}
			switch path {
			case "sync":
				syncNames[name] = true
			case "sync/atomic":
				atomicNames[name] = true
			}
		}
		ast.Inspect(f, func(x ast.Node) bool {
			switch v := x.(type) {
			case *ast.Field:
				if k := kindOfType(v.Type, syncNames, atomicNames); k != "" {
					for _, n := range v.Names {
						kinds[n.Name] = k
					}
				}
			case *ast.ValueSpec:
				k := ""
				if v.Type != nil {
					k = kindOfType(v.Type, syncNames, atomicNames)
				}
				for i, n := range v.Names {
					kk := k
					if kk == "" && i < len(v.Values) {
						kk = kindOfType(v.Values[i], syncNames, atomicNames)
					}
					if kk != "" {
						kinds[n.Name] = kk
					}
				}
			case *ast.AssignStmt:
				if v.Tok == token.DEFINE {
					for i, l := range v.Lhs {
						if id, ok := l.(*ast.Ident); ok && i < len(v.Rhs) {
							if k := kindOfType(v.Rhs[i], syncNames, atomicNames); k != "" {
								kinds[id.Name] = k
							}
						}
					}
				}
			}
			return true
		})
	}
	return kinds
}

// lastName returns the final identifier of a receiver expression (a.b.c -> c).
func lastName(e ast.Expr) string {
	switch v := e.(type) {
	case *ast.Ident:
		return v.Name
	case *ast.SelectorExpr:
		return v.Sel.Name
	case *ast.ParenExpr:
		return lastName(v.X)
	case *ast.StarExpr:
		return lastName(v.X)
	case *ast.UnaryExpr:
		return lastName(v.X)
	case *ast.IndexExpr:
		return lastName(v.X)
	}
	return ""
}

// needsYield reports whether evaluating n performs a synchronisation
// operation (not descending into function literals).
func (r *rewriter) needsYield(n ast.Node) (string, bool) {
	kind := ""
	ast.Inspect(n, func(x ast.Node) bool {
		if kind != "" {
			return false
		}
		switch v := x.(type) {
		case *ast.FuncLit:
			return false
		case *ast.UnaryExpr:
			if v.Op == token.ARROW {
				kind = "recv"
			}
		case *ast.CallExpr:
			switch f := v.Fun.(type) {
			case *ast.SelectorExpr:
				if k := r.kinds[lastName(f.X)]; k != "" && methodsOf[k][f.Sel.Name] {
					kind = strings.ToLower(f.Sel.Name)
				} else if id, ok := f.X.(*ast.Ident); ok && r.atomicPkg[id.Name] {
					kind = "atomic" // atomic.AddInt32(&x, 1)
				}
			case *ast.Ident:
				if f.Name == "close" {
					kind = "close"
				}
			}
		}
		return true
	})
	return kind, kind != ""
}

type rewriter struct {
	fset      *token.FileSet
	file      string
	n         int
	kinds     map[string]string // identifier -> kind of synchronisation object
	atomicPkg map[string]bool   // local names of the sync/atomic import
}

func (r *rewriter) yield(pos token.Pos, kind string) ast.Stmt {
	r.n++
	site := fmt.Sprintf("auto:%s:%d:%s", r.file, r.fset.Position(pos).Line, kind)
	if kind == "spawn" {
		// the scheduler looks for an unannounced child after a site that
		// starts with "spawn" (sites are cut to a fixed length: prefix)
		site = fmt.Sprintf("spawn:auto:%s:%d", r.file, r.fset.Position(pos).Line)
	}
	return &ast.ExprStmt{X: &ast.CallExpr{Fun: ast.NewIdent("verifYield"), Args: []ast.Expr{&ast.BasicLit{Kind: token.STRING, Value: fmt.Sprintf("%q", site)}}}}
}

// alreadyHooked: the statement before is a hand-placed verifYield call.
func isYieldCall(s ast.Stmt) bool {
	es, ok := s.(*ast.ExprStmt)
	if !ok {
		return false
	}
	call, ok := es.X.(*ast.CallExpr)
	if !ok {
		return false
	}
	id, ok := call.Fun.(*ast.Ident)
	return ok && id.Name == "verifYield"
}

func (r *rewriter) block(list []ast.Stmt) []ast.Stmt {
	var out []ast.Stmt
	for i, s := range list {
		prevHooked := i > 0 && isYieldCall(list[i-1])
		switch v := s.(type) {
		case *ast.GoStmt:
			r.stmt(s)
			out = append(out, s)
			if !(i+1 < len(list) && isYieldCall(list[i+1])) {
				out = append(out, r.yield(v.Pos(), "spawn"))
			}
			continue
		case *ast.DeferStmt:
			// deferred call: executed later, nothing to schedule here
			r.stmt(s)
			out = append(out, s)
			continue
		case *ast.SendStmt:
			if !prevHooked {
				out = append(out, r.yield(v.Pos(), "send"))
			}
		case *ast.SelectStmt:
			if !prevHooked {
				out = append(out, r.yield(v.Pos(), "select"))
			}
		case *ast.RangeStmt:
			// ranging over a channel: recognised when the ranged identifier
			// is declared with a channel type in this package (parameter,
			// var, make(chan ...)). A scheduling point before the loop and
			// one before every further receive (end of the body).
			if r.kinds[lastName(v.X)] == "chan" {
				if !prevHooked {
					out = append(out, r.yield(v.Pos(), "range"))
				}
				if n := len(v.Body.List); n == 0 || !isYieldCall(v.Body.List[n-1]) {
					v.Body.List = append(v.Body.List, r.yield(v.Body.Rbrace, "range-next"))
				}
			}
		case *ast.ExprStmt, *ast.AssignStmt, *ast.ReturnStmt, *ast.IncDecStmt, *ast.DeclStmt:
			if isYieldCall(s) {
				break
			}
			if k, ok := r.needsYield(s); ok && !prevHooked {
				out = append(out, r.yield(s.Pos(), k))
			}
		case *ast.IfStmt:
			// condition / init may synchronise (if x := <-ch; ...)
			var hdr []ast.Node
			if v.Init != nil {
				hdr = append(hdr, v.Init)
			}
			hdr = append(hdr, v.Cond)
			for _, h := range hdr {
				if k, ok := r.needsYield(h); ok && !prevHooked {
					out = append(out, r.yield(s.Pos(), k))
					break
				}
			}
		}
		r.stmt(s)
		out = append(out, s)
	}
	return out
}

// stmt descends into nested blocks and function literals.
func (r *rewriter) stmt(s ast.Node) {
	ast.Inspect(s, func(x ast.Node) bool {
		switch v := x.(type) {
		case *ast.BlockStmt:
			v.List = r.block(v.List)
			return false
		case *ast.CaseClause:
			v.Body = r.block(v.Body)
			return false
		case *ast.CommClause:
			v.Body = r.block(v.Body)
			return false
		}
		return true
	})
}

// rewriteFile rewrites one parsed file; returns the new source and the number
// of yields inserted.
func rewriteFile(fset *token.FileSet, f *ast.File, rel string, kinds map[string]string) ([]byte, int, error) {
	r := &rewriter{fset: fset, file: filepath.Base(rel), kinds: kinds, atomicPkg: map[string]bool{}}
	for _, im := range f.Imports {
		if strings.Trim(im.Path.Value, "\"") == "sync/atomic" {
			name := "atomic"
			if im.Name != nil {
				name = im.Name.Name
			}
			r.atomicPkg[name] = true
		}
	}
	for _, d := range f.Decls {
		fd, ok := d.(*ast.FuncDecl)
		if !ok || fd.Body == nil {
			continue
		}
		if fd.Name.Name == "verifYield" {
			continue
		}
		fd.Body.List = r.block(fd.Body.List)
	}
	if r.n == 0 {
		return nil, 0, nil
	}
	var buf bytes.Buffer
	cfg := printer.Config{Mode: printer.SourcePos | printer.UseSpaces | printer.TabIndent, Tabwidth: 8}
	if err := cfg.Fprint(&buf, fset, f); err != nil {
		return nil, 0, err
	}
	return buf.Bytes(), r.n, nil
}

// Overlay rewrites the files of Packages under repo into outDir and returns
// the overlay mapping original path -> rewritten copy.
func Overlay(repo, outDir string) (map[string]string, int, error) {
	os.RemoveAll(outDir)
	if err := os.MkdirAll(outDir, 0o755); err != nil {
		return nil, 0, err
	}
	replace := map[string]string{}
	total := 0
	for _, pkg := range Packages {
		entries, err := os.ReadDir(filepath.Join(repo, pkg))
		if err != nil {
			return nil, 0, err
		}
		fset := token.NewFileSet()
		var files []*ast.File
		var names []string
		for _, e := range entries {
			name := e.Name()
			if e.IsDir() || !strings.HasSuffix(name, ".go") || strings.HasSuffix(name, "_test.go") || strings.HasPrefix(name, "zz_verif_") {
				continue
			}
			f, err := parser.ParseFile(fset, filepath.Join(repo, pkg, name), nil, parser.ParseComments)
			if err != nil {
				return nil, 0, fmt.Errorf("%s/%s: %w", pkg, name, err)
			}
			files = append(files, f)
			names = append(names, name)
		}
		kinds := collect(files)
		for i, f := range files {
			name := names[i]
			src := filepath.Join(repo, pkg, name)
			out, n, err := rewriteFile(fset, f, filepath.Join(pkg, name), kinds)
			if err != nil {
				return nil, 0, fmt.Errorf("%s: %w", src, err)
			}
			if n == 0 {
				continue
			}
			dst := filepath.Join(outDir, strings.ReplaceAll(pkg, "/", "_")+"_"+name)
			if err := os.WriteFile(dst, out, 0o644); err != nil {
				return nil, 0, err
			}
			replace[src] = dst
			total += n
		}
	}
	return replace, total, nil
}
