package orch

import (
	"encoding/json"
	"os"
	"path/filepath"
	"sort"
	"strings"
)

func writeEvidence(p PropCfg, tier string, seed int64, a *agg, wall, buildS float64, violations, known, detPairs int, violSamples []any) {
	faults := map[string]int{}
	probes := map[string]int{}
	outcomes := map[string]int{}
	other := map[string]int{}
	for k, v := range a.counts {
		switch {
		case strings.HasPrefix(k, "fault:"):
			faults[strings.TrimPrefix(k, "fault:")] = v
		case strings.HasPrefix(k, "probe:"):
			probes[strings.TrimPrefix(k, "probe:")] = v
		case strings.HasPrefix(k, "outcome:"):
			outcomes[strings.TrimPrefix(k, "outcome:")] = v
		default:
			other[k] = v
		}
	}
	for _, pr := range p.RequiredProbes {
		if strings.HasPrefix(pr, "probe:") {
			if _, ok := probes[strings.TrimPrefix(pr, "probe:")]; !ok {
				probes[strings.TrimPrefix(pr, "probe:")] = 0
			}
		}
	}
	cells := make([]string, 0, len(a.cells))
	for c := range a.cells {
		cells = append(cells, c)
	}
	sort.Strings(cells)
	cellSample := cells
	if len(cellSample) > 400 {
		cellSample = cellSample[:400]
	}
	samples := append([]any{}, a.samples...)
	samples = append(samples, violSamples...)
	if len(samples) == 0 {
		samples = append(samples, "no sample recorded")
	}
	runWall := wall - buildS
	if runWall <= 0 {
		runWall = wall
	}
	cov := map[string]any{
		"evaluations":               a.evals,
		"distinct_nontrivial":       len(a.nontrivSigs),
		"rule":                      p.Rule,
		"samples":                   samples,
		"exhaustive":                false,
		"simulated_runs":            a.runs,
		"runs_per_scenario":         a.perScen,
		"runs_per_hour":             int(float64(a.runs) / runWall * 3600),
		"seeds":                     a.runs,
		"seeds_per_hour":            int(float64(a.runs) / runWall * 3600),
		"distinct_cases":            len(a.sigs),
		"simulated_time":            map[string]any{"unit": p.TimeUnit, "amount": a.steps},
		"faults_fired":              faults,
		"probes":                    probes,
		"outcomes":                  outcomes,
		"other_counts":              other,
		"distinct_cells":            len(a.cells),
		"cells_sample":              cellSample,
		"determinism_pairs_checked": detPairs,
		"determinism_same_decisions_different_site_order": SiteOrderVariations,
		"real_vs_stub":              p.RealVsStub,
		"known_finding_runs":        known,
		"build_s":                   buildS,
	}
	ev := map[string]any{
		"property_id": p.ID,
		"tier":        tier,
		"seed":        seed,
		"level":       p.Level,
		"coverage":    cov,
		"assumptions": p.Assumptions,
		"wall_s":      wall,
		"violations":  violations,
	}
	b, _ := json.MarshalIndent(ev, "", " ")
	os.WriteFile(filepath.Join(VerifDir, "evidence", p.ID+".json"), append(b, '\n'), 0o644)
}
