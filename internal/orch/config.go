package orch

// ScenCfg is the budget and process layout of one scenario family.
type ScenCfg struct {
	Name  string
	Race  bool // run in the -race worker
	Chunk int  // runs per worker invocation
	// runs and wall budget (seconds) per tier; the first limit hit ends it
	QuickRuns, QuickS       int
	ThoroughRuns, ThoroughS int
	Workers                 int // parallel worker processes (0: NumCPU)
	Procs                   int // GOMAXPROCS of each worker
	// Determinism self-test sample sizes (runs re-executed in second
	// processes at other GOMAXPROCS values)
	DetQuick, DetThorough int
}

// PropCfg describes one claimed property.
type PropCfg struct {
	ID          string
	Level       string // evidence level
	Rule        string // how cases are generated and what counts as distinct non-trivial
	Scenarios   []ScenCfg
	Assumptions []string
	RealVsStub  map[string]string
	// Probes that must be non-zero in the thorough tier (a probe stuck at
	// zero means the workload must change: exit 2)
	RequiredProbes []string
	TimeUnit       string // what "simulated time" is measured in
}

var Props = map[string]PropCfg{}

func register(p PropCfg) { Props[p.ID] = p }
