// Package orch is the orchestrator behind ./check: it rebuilds the worker
// from /repo's working tree, fans seeds out over worker processes, collects
// run records, shrinks and replays failures, matches them against the known
// findings, writes the evidence file and sets the exit code.
package orch

import (
	"bufio"
	"bytes"
	"encoding/json"
	"fmt"
	"os"
	"os/exec"
	"path/filepath"
	"regexp"
	"runtime"
	"sort"
	"strconv"
	"strings"
	"sync"
	"time"

	"verif/internal/autoyield"
	"verif/internal/choice"
	"verif/internal/sim"
)

// VerifDir is the directory the framework lives in: the working directory of
// the check (the ./check script changes into its own directory), so that a
// snapshot of /verif elsewhere on disk is self-contained.
var VerifDir = func() string {
	d, err := os.Getwd()
	if err != nil || d == "" {
		return "/verif"
	}
	return d
}()

const RepoDir = "/repo"

func env(extra ...string) []string {
	e := os.Environ()
	e = append(e, "GOFLAGS=-mod=mod", "GOPROXY=off", "GOSUMDB=off", "GOTOOLCHAIN=local")
	return append(e, extra...)
}

// Trouble aborts with exit 2: the machinery itself is in trouble. It never
// prints VIOLATION.
func Trouble(format string, a ...any) {
	fmt.Printf("HARNESS-TROUBLE: "+format+"\n", a...)
	CleanupRaceDir()
	os.Exit(2)
}

// TransientCrashes counts worker deaths of this check that did not reproduce.
var TransientCrashes int

// SiteOrderVariations: re-executed runs of the determinism self-test that
// took the same decisions but logged their sites in a different order.
var SiteOrderVariations int

// AutoYields is the number of scheduling points the last Build inserted.
var AutoYields int

// Build rebuilds the workers from the current working tree of /repo.
func Build(race bool) string {
	bin := filepath.Join(VerifDir, "bin", "simrun")
	args := []string{"build", "-tags", "verif", "-o"}
	if race {
		bin += "-race"
		args = []string{"build", "-race", "-tags", "verif", "-o"}
	}
	// VERIF_REPO (debugging / background sweeps): build against another
	// checkout of polyform than /repo. Registered checks never set it.
	if alt := os.Getenv("VERIF_REPO"); alt != "" && alt != RepoDir {
		mod, err := os.ReadFile(filepath.Join(VerifDir, "go.mod"))
		if err != nil {
			Trouble("%v", err)
		}
		os.MkdirAll(filepath.Join(VerifDir, ".work"), 0o755)
		altMod := filepath.Join(VerifDir, ".work", "go.alt.mod")
		os.WriteFile(altMod, []byte(strings.Replace(string(mod), "=> "+RepoDir, "=> "+alt, 1)), 0o644)
		sum, _ := os.ReadFile(filepath.Join(VerifDir, "go.sum"))
		os.WriteFile(filepath.Join(VerifDir, ".work", "go.alt.sum"), sum, 0o644)
		args = append([]string{args[0], "-modfile=" + altMod}, args[1:]...)
	}
	// scheduling points before every synchronisation operation of the tree
	// under test, inserted mechanically into copies (go build -overlay)
	repo := RepoDir
	if alt := os.Getenv("VERIF_REPO"); alt != "" {
		repo = alt
	}
	ovDir := filepath.Join(VerifDir, ".work", "overlay")
	replace, n, err := autoyield.Overlay(repo, ovDir)
	if err != nil {
		Trouble("rewriting %s for scheduling points failed (does the tree parse?): %v", repo, err)
	}
	AutoYields = n
	ovFile := filepath.Join(ovDir, "overlay.json")
	ob, _ := json.Marshal(map[string]any{"Replace": replace})
	os.WriteFile(ovFile, ob, 0o644)
	args = append([]string{args[0], "-overlay=" + ovFile}, args[1:]...)
	args = append(args, bin, "./cmd/simrun")
	cmd := exec.Command("go", args...)
	cmd.Dir = VerifDir
	cmd.Env = env()
	out, err := cmd.CombinedOutput()
	if err != nil {
		Trouble("building the worker (race=%v) from /repo's working tree failed: %v\n%s", race, err, out)
	}
	return bin
}

type agg struct {
	mu          sync.Mutex
	runs        int
	evals       int
	steps       int
	wallUS      int64
	counts      map[string]int
	cells       map[string]bool
	sigs        map[uint64]struct{} // hashes of scenario/signature (20M runs in the thorough tier)
	nontrivSigs map[uint64]struct{}
	samples     []any
	violations  []sim.Record
	loghash     map[int]string // run -> hash (first execution)
	sigOf       map[int]string
	classOf     map[int]string
	perScen     map[string]int
}

func newAgg() *agg {
	return &agg{counts: map[string]int{}, cells: map[string]bool{}, sigs: map[uint64]struct{}{}, nontrivSigs: map[uint64]struct{}{},
		loghash: map[int]string{}, sigOf: map[int]string{}, classOf: map[int]string{}, perScen: map[string]int{}}
}

func (a *agg) add(r sim.Record) {
	a.mu.Lock()
	defer a.mu.Unlock()
	a.runs++
	a.perScen[r.Scenario]++
	a.evals += r.Result.Evals
	a.steps += r.Result.Steps
	a.wallUS += r.WallUS
	for k, v := range r.Result.Counts {
		a.counts[k] += v
	}
	for _, c := range r.Result.Cells {
		a.cells[c] = true
	}
	key := choice.Hash64(r.Scenario, r.Result.Sig)
	a.sigs[key] = struct{}{}
	if r.Result.Nontrivial {
		a.nontrivSigs[key] = struct{}{}
	}
	if r.Result.Sample != nil && len(a.samples) < 6 {
		a.samples = append(a.samples, map[string]any{"scenario": r.Scenario, "seed": r.Seed, "run": r.Run, "case": r.Result.Sample})
	}
	if r.Result.Violation != nil {
		a.violations = append(a.violations, r)
	}
}

// crash extracts a Go runtime death from a worker's stderr.
var fatalRe = regexp.MustCompile(`(?m)^(fatal error: .*|panic: .*)$`)

type runner struct {
	prop   PropCfg
	sc     ScenCfg
	bin    string
	seed   int64
	tier   string
	a      *agg
	stopAt time.Time
	maxRun int

	mu      sync.Mutex
	next    int
	stopped bool
	trouble string
}

func (r *runner) take() (int, int, bool) {
	r.mu.Lock()
	defer r.mu.Unlock()
	if r.stopped || r.next >= r.maxRun || time.Now().After(r.stopAt) {
		return 0, 0, false
	}
	from := r.next
	to := from + r.sc.Chunk
	if to > r.maxRun {
		to = r.maxRun
	}
	r.next = to
	return from, to, true
}

// raceDir is private to this orchestrator process: race logs are named
// <dir>/r<slot>.<pid>, and a recycled pid must never meet a stale log.
var raceDir = filepath.Join(VerifDir, ".work", fmt.Sprintf("race-%d-%d", os.Getpid(), time.Now().UnixNano()))

func raceEnv(race bool, slot int) []string {
	if !race {
		return nil
	}
	os.MkdirAll(raceDir, 0o755)
	return []string{fmt.Sprintf("GORACE=log_path=%s/r%d halt_on_error=0 atexit_sleep_ms=0", raceDir, slot)}
}

// CleanupRaceDir removes this process' race logs.
func CleanupRaceDir() { os.RemoveAll(raceDir) }

// invoke runs one worker process over [from,to); returns the records, the
// exit code and stderr.
func invoke(bin string, procs int, race bool, slot int, args ...string) ([]sim.Record, int, string) {
	cmd := exec.Command(bin, args...)
	cmd.Env = env(append(raceEnv(race, slot), "GOMAXPROCS="+strconv.Itoa(procs))...)
	var stderr bytes.Buffer
	cmd.Stderr = &stderr
	stdout, _ := cmd.StdoutPipe()
	if err := cmd.Start(); err != nil {
		return nil, -1, err.Error()
	}
	var recs []sim.Record
	sc := bufio.NewScanner(stdout)
	sc.Buffer(make([]byte, 1<<20), 1<<28)
	for sc.Scan() {
		var rec sim.Record
		if err := json.Unmarshal(sc.Bytes(), &rec); err == nil {
			recs = append(recs, rec)
		}
	}
	err := cmd.Wait()
	code := 0
	if err != nil {
		if ee, ok := err.(*exec.ExitError); ok {
			code = ee.ExitCode()
		} else {
			code = -1
		}
	}
	// collect and remove the race log of this pid
	if race && cmd.Process != nil {
		lp := filepath.Join(raceDir, fmt.Sprintf("r%d.%d", slot, cmd.Process.Pid))
		if b, err := os.ReadFile(lp); err == nil && len(b) > 0 {
			attributed := false
			for _, r := range recs {
				if r.Result.Violation != nil && strings.HasPrefix(r.Result.Violation.Class, "race/") {
					attributed = true
				}
			}
			if !attributed && len(recs) > 0 && (code == 0 || code == 3 || code == 66) {
				// a report the worker did not attribute to a run (it came
				// after the run's end, e.g. from a goroutine the call left
				// behind): it belongs to the last run executed
				last := recs[len(recs)-1]
				if last.Result.Violation != nil {
					// The run already ended in a verdict of its own (a
					// deadlocked or hung call leaves goroutines behind that
					// cannot be joined, so the worker reads what they wrote
					// without a happens-before edge when it reports): the
					// run's verdict stands, the report is only counted.
					// (Wave h, C10-h1: a late report used to replace the
					// deadlock verdict and then failed to replay - exit 2.)
					last.Result.Count("note:race-report-after-a-run-that-already-ended-in-a-violation", 1)
					recs[len(recs)-1] = last
				} else {
					last.Result.Violation = &sim.Violation{Class: "race/late-report", Msg: "data race reported by the race detector after the run that caused it had ended", Detail: head(string(b), 6000)}
					last.Regenerate = true
					last.Trace = nil
					recs[len(recs)-1] = last
				}
				if code == 66 {
					code = 0
				}
			}
		}
		os.Remove(lp)
	}
	return recs, code, stderr.String()
}

func (r *runner) work(slot int) {
	for {
		from, to, ok := r.take()
		if !ok {
			return
		}
		for from < to {
			samples := 0
			if from == 0 {
				samples = 3
			}
			recs, code, stderr := invoke(r.bin, r.sc.Procs, r.sc.Race, slot, "run", "-prop", r.prop.ID, "-scen", r.sc.Name,
				"-seed", fmt.Sprint(r.seed), "-from", fmt.Sprint(from), "-to", fmt.Sprint(to), "-tier", r.tier,
				"-samples", fmt.Sprint(samples), "-deadline", fmt.Sprint(r.stopAt.Unix()+1))
			last := from - 1
			for _, rec := range recs {
				r.a.add(rec)
				last = rec.Run
			}
			switch {
			case code == 0:
				from = to
			case code == 3:
				from = last + 1
			default:
				// the process died. If the Go runtime killed it while a
				// run was executing, that run crashed the program.
				if m := fatalRe.FindString(stderr); m != "" && code != 20 && !strings.Contains(m, "out of memory") {
					crashed := last + 1
					rec := r.crashRecord(crashed, m, stderr, slot)
					r.a.add(rec)
					from = crashed + 1
					continue
				}
				r.mu.Lock()
				r.stopped = true
				r.trouble = fmt.Sprintf("worker %s run -prop %s -scen %s -from %d -to %d exited with %d:\n%s", r.bin, r.prop.ID, r.sc.Name, from, to, code, tail(stderr, 3000))
				r.mu.Unlock()
				return
			}
		}
	}
}

func tail(s string, n int) string {
	if len(s) > n {
		return "..." + s[len(s)-n:]
	}
	return s
}
func head(s string, n int) string {
	if len(s) > n {
		return s[:n] + "..."
	}
	return s
}

// crashRecord re-executes the crashing run with a journal so that its choice
// sequence is known although the process dies, and builds a violation record.
func (r *runner) crashRecord(run int, first, stderr string, slot int) sim.Record {
	class := "crash/" + normaliseCrash(first)
	rec := sim.Record{Prop: r.prop.ID, Scenario: r.sc.Name, Seed: r.seed, Run: run, Race: r.sc.Race,
		Result: sim.Result{Evals: 1, Sig: fmt.Sprintf("crash-%d", run),
			Violation: &sim.Violation{Class: class, Msg: "the process was killed by the Go runtime during this run: " + first, Detail: head(stderr, 6000)}}}
	rec.Regenerate = true
	rec.Tier = r.tier
	return rec
}

func normaliseCrash(s string) string {
	s = regexp.MustCompile(`0x[0-9a-f]+`).ReplaceAllString(s, "0x?")
	s = regexp.MustCompile(`\[recovered\]`).ReplaceAllString(s, "")
	s = regexp.MustCompile(`goroutine \d+`).ReplaceAllString(s, "goroutine N")
	s = regexp.MustCompile(`\d+`).ReplaceAllString(s, "N")
	return strings.TrimSpace(head(s, 120))
}

// ---------------------------------------------------------------- findings

type finding struct {
	kind  string // known | fixed
	prop  string
	class *regexp.Regexp
	text  string
	line  string
}

func loadFindings() []finding {
	b, err := os.ReadFile(filepath.Join(VerifDir, "known_findings.txt"))
	if err != nil {
		return nil
	}
	var out []finding
	for _, line := range strings.Split(string(b), "\n") {
		line = strings.TrimSpace(line)
		if line == "" || strings.HasPrefix(line, "#") {
			continue
		}
		f := finding{line: line}
		switch {
		case strings.HasPrefix(line, "known:"):
			f.kind = "known"
		case strings.HasPrefix(line, "fixed:"):
			f.kind = "fixed"
		default:
			continue
		}
		for _, tok := range strings.Fields(line) {
			if strings.HasPrefix(tok, "property=") {
				f.prop = strings.TrimPrefix(tok, "property=")
			}
			if strings.HasPrefix(tok, "class=") {
				re, err := regexp.Compile("^(?:" + strings.TrimPrefix(tok, "class=") + ")$")
				if err == nil {
					f.class = re
				}
			}
		}
		if i := strings.Index(line, "::"); i >= 0 {
			f.text = strings.TrimSpace(line[i+2:])
		}
		out = append(out, f)
	}
	return out
}

func matchKnown(fs []finding, prop, class string) *finding {
	for i := range fs {
		f := &fs[i]
		if f.kind == "known" && f.prop == prop && f.class != nil && f.class.MatchString(class) {
			return f
		}
	}
	return nil
}

// ---------------------------------------------------------------- main flow

type Options struct {
	Tier string
	Seed int64
}

func seedFromEnv() int64 {
	if s := os.Getenv("VERIF_SEED"); s != "" {
		if v, err := strconv.ParseInt(s, 10, 64); err == nil {
			return v
		}
	}
	return 1
}

func budgetOverride() int {
	if s := os.Getenv("VERIF_BUDGET_S"); s != "" {
		if v, err := strconv.Atoi(s); err == nil {
			return v
		}
	}
	return 0
}

// Check runs one property at one tier. It returns the process exit code.
func Check(tier, id string) int {
	p, ok := Props[id]
	if !ok {
		Trouble("property %s is not claimed by any check", id)
	}
	seed := seedFromEnv()
	t0 := time.Now()
	fmt.Printf("check %s %s seed=%d\n", tier, id, seed)
	os.MkdirAll(filepath.Join(VerifDir, "evidence"), 0o755)
	os.MkdirAll(filepath.Join(VerifDir, "replays"), 0o755)
	os.MkdirAll(filepath.Join(VerifDir, ".work"), 0o755)

	bins := map[bool]string{}
	for _, sc := range p.Scenarios {
		if _, ok := bins[sc.Race]; !ok {
			bins[sc.Race] = Build(sc.Race)
		}
	}
	buildS := time.Since(t0).Seconds()

	a := newAgg()
	detPairs, detMismatch, detFineOnly := 0, []string{}, 0
	for _, sc := range p.Scenarios {
		if only := os.Getenv("VERIF_SCEN"); only != "" && only != sc.Name {
			continue // debugging aid: restrict the check to one scenario family
		}
		runs, secs := sc.QuickRuns, sc.QuickS
		det := sc.DetQuick
		if tier == "thorough" {
			runs, secs = sc.ThoroughRuns, sc.ThoroughS
			det = sc.DetThorough
		}
		if b := budgetOverride(); b > 0 {
			secs = b
		}
		r := &runner{prop: p, sc: sc, bin: bins[sc.Race], seed: seed, tier: tier, a: a, stopAt: time.Now().Add(time.Duration(secs) * time.Second), maxRun: runs}
		workers := sc.Workers
		if workers == 0 {
			workers = runtime.NumCPU()
		}
		var wg sync.WaitGroup
		for w := 0; w < workers; w++ {
			wg.Add(1)
			go func(slot int) { defer wg.Done(); r.work(slot) }(w)
		}
		wg.Wait()
		if r.trouble != "" {
			Trouble("%s", r.trouble)
		}
		// determinism self-test on a sample of this scenario's runs
		n, mm, fo := determinism(p, sc, bins[sc.Race], seed, tier, det, r.next, a)
		detPairs += n
		detMismatch = append(detMismatch, mm...)
		detFineOnly += fo
	}
	if detFineOnly > 0 {
		fmt.Printf("note: %d re-executed runs took the same decisions but passed their scheduling points in a different order inside a task (library-internal map iteration order; not a verdict)\n", detFineOnly)
	}
	SiteOrderVariations = detFineOnly
	if len(detMismatch) > 0 && len(a.violations) == 0 {
		// (a program with a data race is not deterministic; when the runs
		// themselves reported violations those are the verdict)
		Trouble("determinism self-test failed (same seed, different execution):\n%s", strings.Join(detMismatch, "\n"))
	}
	if a.runs == 0 {
		Trouble("no run completed")
	}

	// violations: one representative per class, minimised and replayed
	findings := loadFindings()
	byClass := map[string][]sim.Record{}
	var classes []string
	var harness []string
	for _, v := range a.violations {
		c := v.Result.Violation.Class
		if strings.HasPrefix(c, "HARNESS/") {
			// a scenario reporting that the *harness* is in trouble (tasks
			// did not settle, a generator produced an input its own
			// reference rejects ...): never a property violation
			harness = append(harness, fmt.Sprintf("%s seed=%d run=%d: %s", v.Scenario, v.Seed, v.Run, v.Result.Violation.Msg))
			continue
		}
		if _, ok := byClass[c]; !ok {
			classes = append(classes, c)
		}
		byClass[c] = append(byClass[c], v)
	}
	sort.Slice(classes, func(i, j int) bool {
		ri, rj := strings.HasPrefix(classes[i], "race/"), strings.HasPrefix(classes[j], "race/")
		if ri != rj {
			return !ri // semantic classes first, race pairs after
		}
		return classes[i] < classes[j]
	})
	exit := 0
	reported := 0
	var unconfirmed []string
	var transient []string
	var violSamples []any
	knownCount := 0
	for _, c := range classes {
		recs := byClass[c]
		sort.Slice(recs, func(i, j int) bool { return len(recs[i].Trace) < len(recs[j].Trace) })
		rec := recs[0]
		if k := matchKnown(findings, id, c); k != nil {
			fmt.Printf("KNOWN-FINDING: property=%s %s (class %s, %d runs)\n", id, k.text, c, len(recs))
			knownCount += len(recs)
			continue
		}
		if reported >= 3 {
			// still a violation; do not spend the budget minimising more:
			// the unminimised record is a valid replay file
			path := filepath.Join(VerifDir, "replays", fmt.Sprintf("%s-%s-%d-%d.json", rec.Prop, rec.Scenario, rec.Seed, rec.Run))
			if b, err := json.MarshalIndent(rec, "", " "); err == nil && !rec.Regenerate && len(rec.Trace) > 0 {
				os.WriteFile(path, b, 0o644)
				fmt.Printf("  class: %s (not minimised)\nVIOLATION property=%s replay=%s\n", c, id, path)
			} else {
				fmt.Printf("  class: %s (no replay file written)\n", c)
			}
			exit = 1
			continue
		}
		path, min, err := minimiseAndConfirm(p, rec, bins, tier)
		if err != nil && !strings.HasPrefix(c, "crash/") {
			// The shortest record of the class did not reproduce on its own.
			// A run can inherit state from earlier runs of its worker
			// process when the code under test keeps package-level state
			// (wave i, C13-i3: a package-level semaphore whose slots leak
			// over several runs); such a record is no replay file. Other
			// runs of the class may be self-contained - the longest
			// histories are the likeliest - so a few of them are tried
			// before the class is given up as unconfirmed.
			for k := 0; k < 4 && k < len(recs)-1 && err != nil; k++ {
				alt := recs[len(recs)-1-k]
				var err2 error
				if path, min, err2 = minimiseAndConfirm(p, alt, bins, tier); err2 == nil {
					err = nil
					rec = alt
				}
			}
		}
		if err != nil {
			// a class whose replay does not reproduce is never reported as a
			// VIOLATION; it is harness trouble unless another class of this
			// very check has been confirmed (then that one is the verdict)
			if strings.HasPrefix(c, "crash/") {
				// a worker process died once and the run does not crash
				// again in eight fresh processes: runs are deterministic,
				// so this was not the code under test (observed once in
				// ~4*10^7 goroutine dumps: the Go runtime's own unwinder
				// faulting inside runtime.Stack under -race). Noted in the
				// evidence, not a verdict.
				transient = append(transient, fmt.Sprintf("seed %d run %d: %s", rec.Seed, rec.Run, rec.Result.Violation.Msg))
				continue
			}
			unconfirmed = append(unconfirmed, fmt.Sprintf("violation of class %q found (seed %d run %d) but %v", c, rec.Seed, rec.Run, err))
			continue
		}
		reported++
		exit = 1
		fmt.Printf("  class: %s\n  %s\n  trace: %d draws (from %d), %d runs of this class\n", c, min.Result.Violation.Msg, len(min.Trace), min.OrigLen, len(recs))
		fmt.Printf("VIOLATION property=%s replay=%s\n", id, path)
		violSamples = append(violSamples, map[string]any{"violation_class": c, "msg": min.Result.Violation.Msg, "replay": path})
	}

	for _, t := range transient {
		fmt.Printf("  note: a worker process died once, not reproducible (not a verdict): %s\n", head(t, 300))
	}
	TransientCrashes = len(transient)
	if len(harness) > 0 && exit == 0 {
		if len(harness) > 5 {
			harness = harness[:5]
		}
		Trouble("a scenario reported harness trouble:\n  %s", strings.Join(harness, "\n  "))
	}
	if len(unconfirmed) > 0 {
		if exit == 0 {
			Trouble("%s", strings.Join(unconfirmed, "\n"))
		}
		for _, u := range unconfirmed {
			fmt.Printf("  note (not reported as a violation): %s\n", u)
		}
	}
	wall := time.Since(t0).Seconds()
	writeEvidence(p, tier, seed, a, wall, buildS, len(a.violations)-knownCount, knownCount, detPairs, violSamples)

	if exit == 0 && tier == "thorough" && os.Getenv("VERIF_SCEN") == "" {
		for _, pr := range p.RequiredProbes {
			if a.counts[pr] == 0 {
				Trouble("probe %q was never hit in the thorough tier: the workload or fault mix must change", pr)
			}
		}
	}
	fmt.Printf("check %s %s: runs=%d evaluations=%d distinct=%d nontrivial=%d violations=%d known=%d wall=%.1fs exit=%d\n",
		tier, id, a.runs, a.evals, len(a.sigs), len(a.nontrivSigs), len(a.violations)-knownCount, knownCount, wall, exit)
	return exit
}

// determinism re-executes a sample of runs in fresh processes at other
// GOMAXPROCS values and compares signature, log hash and violation class.
//
// What must agree: the case executed and the scheduler's decision log
// (Result.DetHash: who was runnable and who was released at every step) - or,
// for scenarios without a scheduler, signature and log hash - and the
// violation class. For scheduled scenarios the finer event log (which sites
// each task passed through, in which order) is compared as well, but a
// difference there alone is counted (third return value) and reported, not
// treated as trouble: the order of two scheduling points inside one task can
// follow Go map iteration order inside the library (benign change C01-g3:
// attribute names interned through a sync.Map while ranging over a caller's
// map), which no seam controls and which changes no decision.
func determinism(p PropCfg, sc ScenCfg, bin string, seed int64, tier string, n, upto int, extra *agg) (int, []string, int) {
	if n <= 0 || upto <= 0 {
		return 0, nil, 0
	}
	if n > upto {
		n = upto
	}
	type key struct{ det, fine, class string }
	get := func(procs, slot int) map[int]key {
		out := map[int]key{}
		from := 0
		for from < n {
			recs, code, stderr := invoke(bin, procs, sc.Race, 100+slot, "run", "-prop", p.ID, "-scen", sc.Name, "-seed", fmt.Sprint(seed),
				"-from", fmt.Sprint(from), "-to", fmt.Sprint(n), "-tier", tier)
			last := from - 1
			for _, r := range recs {
				c := ""
				if r.Result.Violation != nil {
					c = r.Result.Violation.Class
					extra.mu.Lock()
					extra.violations = append(extra.violations, r)
					extra.mu.Unlock()
				}
				k := key{det: r.Result.DetHash, fine: r.Result.Sig + " " + r.Result.LogHash, class: c}
				if k.det == "" {
					k.det = k.fine
				}
				out[r.Run] = k
				last = r.Run
			}
			if code == 0 {
				break
			}
			if code != 3 {
				if fatalRe.MatchString(stderr) {
					out[last+1] = key{"crash", "", "crash"}
					from = last + 2
					continue
				}
				Trouble("determinism: worker exited with %d: %s", code, tail(stderr, 2000))
			}
			from = last + 1
		}
		return out
	}
	var wg sync.WaitGroup
	res := make([]map[int]key, 3)
	for i, procs := range []int{1, 4, 16} {
		wg.Add(1)
		go func(i, procs int) { defer wg.Done(); res[i] = get(procs, i) }(i, procs)
	}
	wg.Wait()
	var mm []string
	pairs, fineOnly := 0, 0
	for run := 0; run < n; run++ {
		a, b, c := res[0][run], res[1][run], res[2][run]
		pairs += 2
		if a.class != "" || b.class != "" || c.class != "" {
			// a violating run: reported through the normal path (the
			// re-executions' records were added to the aggregate)
			continue
		}
		switch {
		case a.det != b.det || a.det != c.det:
			mm = append(mm, fmt.Sprintf("  %s/%s seed=%d run=%d: GOMAXPROCS=1 %v | 4 %v | 16 %v", p.ID, sc.Name, seed, run, a, b, c))
		case a.fine != b.fine || a.fine != c.fine:
			fineOnly++
		}
	}
	return pairs, mm, fineOnly
}

// minimiseAndConfirm shrinks a failing record, writes the replay file and
// confirms in a fresh process that replaying it reproduces the class.
func minimiseAndConfirm(p PropCfg, rec sim.Record, bins map[bool]string, tier string) (string, sim.Record, error) {
	var sc ScenCfg
	for _, s := range p.Scenarios {
		if s.Name == rec.Scenario {
			sc = s
		}
	}
	bin := bins[sc.Race]
	work := filepath.Join(VerifDir, ".work")
	raw := filepath.Join(work, fmt.Sprintf("raw-%s-%d-%d.json", rec.Prop, rec.Seed, rec.Run))
	defer os.Remove(raw)
	if rec.Regenerate {
		// the process died: recover the choice sequence with a journal
		j := filepath.Join(work, fmt.Sprintf("journal-%s-%d-%d.txt", rec.Prop, rec.Seed, rec.Run))
		defer os.Remove(j)
		invoke(bin, sc.Procs, sc.Race, 200, "run", "-prop", rec.Prop, "-scen", rec.Scenario, "-seed", fmt.Sprint(rec.Seed),
			"-from", fmt.Sprint(rec.Run), "-to", fmt.Sprint(rec.Run+1), "-tier", tier, "-journal", j)
		rec.Trace = readJournal(j)
	}
	b, _ := json.Marshal(rec)
	os.WriteFile(raw, b, 0o644)
	final := filepath.Join(VerifDir, "replays", fmt.Sprintf("%s-%s-%d-%d.json", rec.Prop, rec.Scenario, rec.Seed, rec.Run))
	budget := "30"
	if tier == "thorough" {
		budget = "120"
	}
	cmd := exec.Command(bin, "shrink", "-file", raw, "-out", final, "-budget", budget, "-tier", tier)
	cmd.Env = env(append(raceEnv(sc.Race, 201), "GOMAXPROCS="+strconv.Itoa(sc.Procs))...)
	out, err := cmd.CombinedOutput()
	if err != nil {
		// the shrinker died (killed, out of memory ...): the unminimised
		// record is still a valid replay file - never lose the failure
		fmt.Printf("  shrinking failed (%v); keeping the unminimised record\n", err)
		if len(rec.Trace) == 0 {
			return "", rec, fmt.Errorf("shrinking failed and no choice sequence is known: %v\n%s", err, tail(string(out), 1000))
		}
		rb, _ := json.MarshalIndent(rec, "", " ")
		os.WriteFile(final, rb, 0o644)
	} else {
		fmt.Printf("  %s", tail(string(out), 300))
	}
	fb, err := os.ReadFile(final)
	if err != nil {
		return "", rec, err
	}
	var min sim.Record
	json.Unmarshal(fb, &min)
	// confirm: fresh process, up to 8 attempts (residual map-order
	// nondeterminism, DESIGN 2.6); the reproduction rate is reported
	okN, tries := 0, 0
	for tries < 8 {
		tries++
		code := Replay(final, true)
		if code == 1 {
			okN++
			if okN >= 2 || tries == 1 {
				break
			}
		}
	}
	if okN == 0 {
		return final, min, fmt.Errorf("its replay file %s did not reproduce it in %d fresh processes", final, tries)
	}
	fmt.Printf("  replay confirmed in a fresh process (%d/%d attempts)\n", okN, tries)
	return final, min, nil
}

func readJournal(path string) []choice.Entry {
	b, err := os.ReadFile(path)
	if err != nil {
		return nil
	}
	var out []choice.Entry
	for _, line := range strings.Split(string(b), "\n") {
		var e choice.Entry
		if json.Unmarshal([]byte(line), &e) == nil && line != "" {
			out = append(out, e)
		}
	}
	return out
}

// Replay re-executes a replay file in a fresh worker process. Exit code 1 =
// the recorded violation class was reproduced, 0 = no violation.
func Replay(path string, quiet bool) int {
	b, err := os.ReadFile(path)
	if err != nil {
		Trouble("%v", err)
	}
	var rec sim.Record
	if err := json.Unmarshal(b, &rec); err != nil {
		Trouble("bad replay file %s: %v", path, err)
	}
	p, ok := Props[rec.Prop]
	if !ok {
		Trouble("replay file names unknown property %s", rec.Prop)
	}
	var sc ScenCfg
	for _, s := range p.Scenarios {
		if s.Name == rec.Scenario {
			sc = s
		}
	}
	bin := Build(sc.Race)
	args := []string{"replay", "-file", path}
	if quiet {
		args = append(args, "-quiet")
	}
	cmd := exec.Command(bin, args...)
	cmd.Env = env(append(raceEnv(sc.Race, 202), "GOMAXPROCS="+strconv.Itoa(sc.Procs))...)
	var stderr bytes.Buffer
	cmd.Stderr = &stderr
	if !quiet {
		cmd.Stdout = os.Stdout
	}
	err = cmd.Run()
	code := 0
	if ee, ok := err.(*exec.ExitError); ok {
		code = ee.ExitCode()
	}
	want := ""
	if rec.Result.Violation != nil {
		want = rec.Result.Violation.Class
	}
	if code != 0 && code != 1 && code != 4 && strings.HasPrefix(want, "crash/") && fatalRe.MatchString(stderr.String()) {
		if "crash/"+normaliseCrash(fatalRe.FindString(stderr.String())) == want {
			if !quiet {
				fmt.Printf("replay: the process crashed again: %s\n", fatalRe.FindString(stderr.String()))
			}
			return 1
		}
		return 4
	}
	if code == 3 {
		code = 1
	}
	if !quiet && stderr.Len() > 0 {
		fmt.Print(tail(stderr.String(), 2000))
	}
	return code
}
