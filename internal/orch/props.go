package orch

func init() {
	register(PropCfg{
		ID:    "C14",
		Level: "fault_enumeration",
		Rule: "one evaluation = one decode of one strict prefix (crash point) of a generated valid file under one seeded delivery schedule; " +
			"per file every cut 0..len-1 is enumerated (ASCII bodies: every token boundary); about one file in 13 is large (up to ~200 KB) and is cut around the readers' buffer and block boundaries, region boundaries, its first and last 400 bytes and at every 97th position instead; files and delivery schedules are sampled from VERIF_SEED; " +
			"distinct_nontrivial = number of distinct generated files (by content hash) that were readable complete, had >=1 cut, and whose whole cut space was decoded",
		Scenarios: []ScenCfg{{Name: "truncated-files", Chunk: 32, QuickRuns: 4800, QuickS: 60, ThoroughRuns: 40000, ThoroughS: 900, Procs: 2, DetQuick: 16, DetThorough: 80}},
		Assumptions: []string{
			"a Go panic raised by a decoder on a truncated input is classed as a (loud) rejection, counted separately, not as a violation",
			"ASCII bodies are cut at token boundaries only, as the property states; binary data and ASCII headers at every byte",
			"SPZ and PTS inputs come from reference encoders in the harness (polyform has no complete writer for them)",
			"hang = decode call outstanding after 2 s of process CPU time, or >1000 reads after the terminal error, or >64*len+4096 reads in total",
		},
		RealVsStub: map[string]string{
			"real": "formats/ply, formats/stl, formats/splat, formats/spz, formats/pts decoders; ply/stl/splat writers; modeling.Mesh",
			"stub": "simio.Disk (crashing writer), simio.Stream (delivery schedule), SPZ and PTS reference encoders, watchdog",
		},
		RequiredProbes: []string{"fault:cut", "fault:disk-crash-write", "outcome:error", "fault:empty-read"},
		TimeUnit:       "stream read operations",
	})

	register(PropCfg{
		ID:    "C13",
		Level: "exploration",
		Rule: "one evaluation = one simulated execution: 2-4 client tasks issue 2-6 UpdateParameter/ParameterData/Artifact calls each on a real graph.Instance over a generated multi-level graph, " +
			"interleaved by the seeded scheduler (policies: random, PCT, round-robin, starve-one, newest-first, sticky) at the hooks around the producer lock and inside every node processor, under the race detector; " +
			"the recorded history is checked by porcupine against a sequential model; (server-clients) the same with every call issued as a request to the edit server's own handlers. distinct_nontrivial = distinct schedule signatures (hash of the (step, task, site) sequence) in which operations of two clients overlapped in time",
		Scenarios: []ScenCfg{
			{Name: "graph-clients", Race: true, Chunk: 80, QuickRuns: 16000, QuickS: 60, ThoroughRuns: 400000, ThoroughS: 1200, Procs: 4, DetQuick: 24, DetThorough: 120},
			// the same graphs, plans and oracles with every call served by the edit server's own request handlers
			{Name: "server-clients", Race: true, Chunk: 80, QuickRuns: 8000, QuickS: 40, ThoroughRuns: 200000, ThoroughS: 600, Procs: 4, DetQuick: 24, DetThorough: 120},
		},
		Assumptions: []string{
			"schedules are explored at the granularity of the yield points (around the producer lock, between two input reads of every harness processor, around the client calls); finer-grained atomicity violations surface only through the race detector",
			"race detection is ThreadSanitizer's happens-before analysis over the executed schedule",
			"porcupine verdict Unknown (30 s timeout) is counted, never reported",
			"harness node types (LeafData, MixData, ProdData) stand in for user nodes; Instance, nodes.Struct, parameter.Value are real",
		},
		RealVsStub: map[string]string{
			"real": "generator/graph.Instance (UpdateParameter, ParameterData, Artifact, AddProducer), nodes.Struct caching/versioning, parameter.Value/File, basics.TextNode/BinaryNode, sync.Mutex, Go runtime scheduler primitives; server-clients: generator.parameterValueEndpoint, AppServer.ProducerEndpoint, generator/endpoint request readers/response writers and panic recovery",
			"stub": "detsched (who runs next), harness node processors and text artifact, client loops; in the server-clients scenario the edit server's real handlers for parameter and producer values serve every call (net/http/httptest request and recorder instead of a socket; the mux, autosave, the WebSocket hub and its 200 ms timer are not part of the simulation)",
		},
		RequiredProbes: []string{"probe:overlapping-operations", "probe:call-arrived-during-evaluation", "porcupine:Ok"},
		TimeUnit:       "scheduler steps (one released task per step)",
	})

	register(PropCfg{
		ID:    "C11",
		Level: "exploration",
		Rule: "one evaluation = one operation of a generated history (update a source, re-wire a scalar input, append to / remove from an array input, read a node, look at State/Version) over a generated DAG of real nodes.Struct nodes (<=8) on <=5 sources (parameter.Value, nodes.ValueNode, function-initialised and slice-valued value nodes; one source in four has a subscriber that reads a node from inside the alert of an update); " +
			"after every operation the real graph is compared with a from-scratch evaluator and an execution/version model; the order in which a node enumerates its dependencies (Go map order in the real program) is a seeded choice. " +
			"distinct_nontrivial = distinct histories (hash of the operation sequence with results) that contain an update or re-wiring followed by a read of a node at distance >= 2 from its sources",
		Scenarios: []ScenCfg{{Name: "node-histories", Chunk: 5000, QuickRuns: 600000, QuickS: 60, ThoroughRuns: 20000000, ThoroughS: 900, Procs: 2, DetQuick: 200, DetThorough: 2000}},
		Assumptions: []string{
			"minimal recomputation is read permissively: an update call counts as a change even if the value is equal, and re-wiring an upstream node counts as a change for every node downstream",
			"harness processors read every connected input and combine them injectively, so freshness is decidable from the output string",
			"the map-order seam (nodes.VerifPermute, tag verif) only produces orders the untagged program can exhibit",
		},
		RealVsStub: map[string]string{
			"real": "nodes.Struct (SetInput, Outdated, Dependencies, Value, State, Version), nodes.ValueNode, parameter.Value, refutil reflection helpers",
			"stub": "harness processors (Bin/Tri/Arr/Mix) with execution log; from-scratch evaluator and dirty-set model; seeded permutation standing in for Go map order",
		},
		RequiredProbes: []string{"fault:map-order-permutations", "probe:read-served-from-cache", "op:array-remove", "op:rewire"},
		TimeUnit:       "history operations",
	})

	register(PropCfg{
		ID:    "C10",
		Level: "exploration",
		Rule: "one evaluation = one simulated execution of one parallel entry point against its sequential counterpart: (pool-scans) the seven Scan/Modify *ParallelWithPoolSize functions over generated meshes with element counts around multiples of the pool size, " +
			"(add-field) AddFieldParallel/AddFieldParallel2 vs AddField compared cell by cell over fields straddling block boundaries, (march, march-norace) MarchParallel vs March compared as triangle multisets; worker goroutines are interleaved by the seeded scheduler at hooks around every go statement, channel operation and the chunk mutex and inside user callbacks, under the race detector (except march-norace). " +
			"distinct_nontrivial = distinct (call configuration, schedule signature) pairs in which at least two workers (or a worker and the caller) were interleaved inside the call",
		Scenarios: []ScenCfg{
			{Name: "pool-scans", Race: true, Chunk: 40, QuickRuns: 1600, QuickS: 30, ThoroughRuns: 400000, ThoroughS: 500, Procs: 4, DetQuick: 24, DetThorough: 120},
			{Name: "add-field", Race: true, Chunk: 6, QuickRuns: 224, QuickS: 40, ThoroughRuns: 40000, ThoroughS: 500, Procs: 4, Workers: 12, DetQuick: 6, DetThorough: 30},
			{Name: "march", Race: true, Chunk: 1, QuickRuns: 32, QuickS: 25, ThoroughRuns: 4000, ThoroughS: 400, Procs: 4, DetQuick: 0, DetThorough: 6},
			{Name: "march-norace", Race: false, Chunk: 4, QuickRuns: 128, QuickS: 20, ThoroughRuns: 40000, ThoroughS: 400, Procs: 4, DetQuick: 4, DetThorough: 16},
		},
		Assumptions: []string{
			"the user callback is race free by construction (writes to distinct memory per index); a race report therefore implicates the library",
			"field data equality is exact (bit-identical float64 per cell): every cell receives exactly one addition per AddField call and attribute",
			"marched triangles are compared as rotation-canonical triples of the 3-decimal cell keys the final weld uses, which is independent of block merge order",
			"schedules are explored at yield-point granularity; finer atomicity violations surface through the race detector",
			"which worker receives which block is decided by Go map iteration order in the library (not seamed); the event log does not depend on it",
		},
		RealVsStub: map[string]string{
			"real": "modeling.Mesh Scan*/Modify* sequential and ParallelWithPoolSize variants, marching.MarchingCanvas AddField*, March*, sync.WaitGroup/Mutex/channels, Go runtime",
			"stub": "detsched (who runs next), worker count (marching.VerifWorkers), user callbacks and analytic field functions",
		},
		RequiredProbes: []string{"probe:workers-interleaved", "probe:fewer-elements-than-workers", "probe:count-not-divisible-by-pool", "probe:field-spans-many-blocks", "probe:no-surface"},
		TimeUnit:       "scheduler steps (one released task per step)",
	})

	register(PropCfg{
		ID:    "C12",
		Level: "exploration",
		Rule: "one evaluation = one save+restart inside a generated edit history (5-60 operations: create node of any registered type, connect type-compatible ports incl. bursts on array ports, disconnect, parameter value/name/description for every parameter type, producers, metadata set/delete, delete unused nodes) executed on a real generator.App; some saves are autosaves (the file is checked the same way but the session continues on the live application, as in the edit server); at every restart only the bytes of App.Schema() survive, are loaded into fresh Apps, and re-saved bytes, structure (through the public schema) and artifacts of deterministic producers are compared; the history continues on the reloaded App. Some histories start from the graph shipped in examples/graphs. A second scenario runs the same histories in the -race build (the calls are sequential; parallelism the library might use inside save/load is judged by the race detector). " +
			"distinct_nontrivial = distinct histories (hash of the operation log) containing at least one restart after at least one wiring edit, or starting from a shipped graph",
		Scenarios: []ScenCfg{
			{Name: "edit-save-restart", Chunk: 100, QuickRuns: 12000, QuickS: 60, ThoroughRuns: 4000000, ThoroughS: 900, Procs: 2, DetQuick: 60, DetThorough: 400},
			// the same histories in the -race build: save and load are sequential calls, but a library that parallelises them internally is judged by the race detector
			{Name: "edit-save-restart-race", Race: true, Chunk: 40, QuickRuns: 2400, QuickS: 40, ThoroughRuns: 400000, ThoroughS: 400, Procs: 2, DetQuick: 12, DetThorough: 60},
		},
		Assumptions: []string{
			"execution counters (version) are not part of the saved graph and are excluded from the comparison",
			"artifacts are compared only for producers whose whole cone consists of node types that are deterministic functions of their inputs (nodes/experimental noise/texture nodes and the glTF writer are excluded by type) and whose content agrees between two independent loads",
			"parameter defaults are not compared (not an editing operation); name, description and current value are",
			"an editing call that panics on unmet preconditions is recorded and tolerated; the state it leaves behind must still round-trip",
		},
		RealVsStub: map[string]string{
			"real": "generator.App (Schema, ApplySchema), graph.Instance editing API, all 76 registered node types plus four harness types (one hand-written with two output ports), parameter (de)serialisation, jbtf encoder, sync.NestedSyncMap",
			"stub": "restart = drop the App and keep only the saved bytes (no file system; GraphSaver's os.WriteFile is outside the property); HTTP front end not simulated",
		},
		RequiredProbes: []string{"fault:restart", "probe:array-input-with-10+-connections", "probe:shipped-graph-start", "artifact:compared-equal", "op:array-remove"},
		TimeUnit:       "edit operations",
	})

	register(PropCfg{
		ID:    "C01",
		Level: "exploration",
		Rule: "one evaluation = one re-read of one live mesh value after one operation. (branching-histories) a pool of up to 8 live meshes; 4-40 operations drawn by reflection over the 71 exported Mesh methods, 27 meshops/gausops transformers, repeat.Mesh and seven writers onto a simulated disk that fails at a seeded offset, applied to receivers biased towards shared bases and results of Append; after every operation every live value is compared bit for bit with the snapshot taken when it was obtained. " +
			"(shared-across-goroutines) 2-3 tasks derive from the same shared meshes under the seeded scheduler and the race detector. distinct_nontrivial = distinct histories in which some mesh had at least two derivations and earlier values were re-read afterwards (sequential), resp. distinct (history, schedule) pairs with at least one context switch between derivers (concurrent)",
		Scenarios: []ScenCfg{
			{Name: "branching-histories", Chunk: 400, QuickRuns: 24000, QuickS: 40, ThoroughRuns: 20000000, ThoroughS: 700, Procs: 2, DetQuick: 100, DetThorough: 1000},
			{Name: "shared-across-goroutines", Race: true, Chunk: 16, QuickRuns: 3200, QuickS: 40, ThoroughRuns: 2000000, ThoroughS: 500, Procs: 4, DetQuick: 24, DetThorough: 120},
		},
		Assumptions: []string{
			"the harness never writes to a slice or map it handed to or received from the library, so a changed snapshot is the library's doing",
			"operations that panic or return an error on unmet preconditions are tolerated; they must still leave every live value intact",
			"AttributeLength() is compared only for meshes whose attributes all have the same length (on ill-formed meshes it follows Go map order)",
			"methods or transformer fields whose parameter types the generator cannot build are reported under other_counts as uncovered-type:*",
		},
		RealVsStub: map[string]string{
			"real": "modeling.Mesh (all exported methods), meshops/gausops transformers, repeat.Mesh, primitives, ply/obj/stl/gltf/splat writers",
			"stub": "simio.Disk (failing writer), pure callbacks, detsched (concurrent mode)",
		},
		RequiredProbes: []string{"probe:branching-derivations", "fault:disk-write-failed", "op:mesh-append", "op:meshops", "op:writer"},
		TimeUnit:       "mesh operations (sequential) / scheduler steps (concurrent)",
	})
}
