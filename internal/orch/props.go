package orch

func init() {
	register(PropCfg{
		ID:    "C14",
		Level: "fault_enumeration",
		Rule: "one evaluation = one decode of one strict prefix (crash point) of a generated valid file under one seeded delivery schedule; " +
			"per file every cut 0..len-1 is enumerated (ASCII bodies: every token boundary), files and delivery schedules are sampled from VERIF_SEED; " +
			"distinct_nontrivial = number of distinct generated files (by content hash) that were readable complete, had >=1 cut, and whose whole cut space was decoded",
		Scenarios: []ScenCfg{{Name: "truncated-files", Chunk: 16, QuickRuns: 480, QuickS: 60, ThoroughRuns: 40000, ThoroughS: 900, Procs: 2, DetQuick: 16, DetThorough: 80}},
		Assumptions: []string{
			"a Go panic raised by a decoder on a truncated input is classed as a (loud) rejection, counted separately, not as a violation",
			"ASCII bodies are cut at token boundaries only, as the property states; binary data and ASCII headers at every byte",
			"SPZ and PTS inputs come from reference encoders in the harness (polyform has no complete writer for them)",
			"hang = decode call outstanding after 2 s of process CPU time, or >1000 reads after the terminal error, or >64*len+4096 reads in total",
		},
		RealVsStub: map[string]string{
			"real": "formats/ply, formats/stl, formats/splat, formats/spz, formats/pts decoders; ply/stl/splat writers; modeling.Mesh",
			"stub": "simio.Disk (crashing writer), simio.Stream (delivery schedule), SPZ and PTS reference encoders, watchdog",
		},
		RequiredProbes: []string{"fault:cut", "fault:disk-crash-write", "outcome:error", "fault:empty-read"},
		TimeUnit:       "stream read operations",
	})
}
