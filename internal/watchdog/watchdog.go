// Package watchdog runs a call that may never return. The verdict "hang" is
// based on the CPU time the process burns while the call is outstanding (not
// on wall time), so machine load cannot trip it. A hung call leaks a spinning
// goroutine: the worker must exit after reporting it.
package watchdog

import (
	"fmt"
	"runtime/debug"
	"syscall"
	"time"
)

func cpuNow() time.Duration {
	var ru syscall.Rusage
	syscall.Getrusage(syscall.RUSAGE_SELF, &ru)
	return time.Duration(ru.Utime.Nano() + ru.Stime.Nano())
}

// Outcome of a guarded call.
type Outcome struct {
	Hung  bool
	Panic any
	Stack string
	CPU   time.Duration
}

// Leaked counts hung calls in this process.
var Leaked int

// Call runs f on its own goroutine and waits until it returns, panics, or has
// burnt cpuLimit of CPU time.
func Call(cpuLimit time.Duration, f func()) Outcome {
	done := make(chan Outcome, 1)
	go func() {
		var o Outcome
		defer func() {
			if r := recover(); r != nil {
				o.Panic = r
				o.Stack = string(debug.Stack())
			}
			done <- o
		}()
		f()
	}()
	// fast path
	select {
	case o := <-done:
		return o
	case <-time.After(20 * time.Millisecond):
	}
	start := cpuNow()
	t := time.NewTicker(25 * time.Millisecond)
	defer t.Stop()
	for {
		select {
		case o := <-done:
			return o
		case <-t.C:
			if used := cpuNow() - start; used > cpuLimit {
				Leaked++
				return Outcome{Hung: true, CPU: used}
			}
		}
	}
}

func (o Outcome) PanicString() string {
	if o.Panic == nil {
		return ""
	}
	return fmt.Sprint(o.Panic)
}
