// Package simio is the simulated disk and stream: the only "storage" and
// "transport" polyform's codecs ever see in a simulated run. A Disk accepts
// bytes until its crash point; a Stream delivers a byte string according to a
// delivery schedule drawn from the chooser (chunking, how end-of-data is
// signalled, which terminal error) and polices livelock.
package simio

import (
	"errors"
	"fmt"
	"io"

	"verif/internal/choice"
)

// ---------------------------------------------------------------- Disk

// ErrNoSpace is what a crashed Disk reports.
var ErrNoSpace = errors.New("simio: no space left on device (injected)")

// Disk is a writer that survives only up to CrashAt bytes (-1: never
// crashes). What "is on disk after the crash" is Bytes().
type Disk struct {
	CrashAt int
	// Short: at the crash, accept the part that fits and return n<len(p)
	// with the error (a short write); otherwise reject the whole write that
	// crosses the crash point but keep the prefix that fits (torn write).
	Short   bool
	buf     []byte
	Crashed bool
	Writes  int
	// WritesAfterCrash counts writes the caller attempted after it had
	// already been told the device failed.
	WritesAfterCrash int
}

func NewDisk(crashAt int, short bool) *Disk { return &Disk{CrashAt: crashAt, Short: short} }

func (d *Disk) Write(p []byte) (int, error) {
	d.Writes++
	if d.Crashed {
		d.WritesAfterCrash++
		return 0, ErrNoSpace
	}
	if d.CrashAt < 0 || len(d.buf)+len(p) <= d.CrashAt {
		d.buf = append(d.buf, p...)
		return len(p), nil
	}
	room := d.CrashAt - len(d.buf)
	if room < 0 {
		room = 0
	}
	d.buf = append(d.buf, p[:room]...)
	d.Crashed = true
	if d.Short {
		return room, ErrNoSpace
	}
	return 0, ErrNoSpace
}

func (d *Disk) Bytes() []byte { return d.buf }

// ---------------------------------------------------------------- Stream

// ErrTransport is the injected non-EOF terminal error.
var ErrTransport = errors.New("simio: connection reset by peer (injected)")

// Livelock is the panic value a Stream raises when the reader keeps calling
// Read long after it was told the stream is over.
type Livelock struct{ Calls int }

func (l Livelock) Error() string {
	return fmt.Sprintf("simio: %d reads after the terminal error was delivered", l.Calls)
}

const (
	ChunkWhole  = iota // as much as fits in p
	ChunkOne           // one byte per read
	ChunkRandom        // sizes drawn per read
	ChunkKinds
)

const (
	EndEOF         = iota // (n>0,nil) ... then (0, io.EOF)
	EndEOFWithData        // last data delivered together with io.EOF
	EndUnexpected         // (0, io.ErrUnexpectedEOF)
	EndTransport          // (0, ErrTransport)
	EndKinds
)

var chunkNames = []string{"whole", "one-byte", "random"}
var endNames = []string{"eof", "eof-with-data", "unexpected-eof", "transport-error"}

// Schedule is the delivery schedule of one Stream.
type Schedule struct {
	Chunk     int
	End       int
	EmptyRead bool // inject legal (0,nil) reads now and then
}

func (s Schedule) String() string {
	e := ""
	if s.EmptyRead {
		e = "+empty-reads"
	}
	return chunkNames[s.Chunk] + "/" + endNames[s.End] + e
}

// DrawSchedule draws a delivery schedule; the all-zero draw is "whole buffer,
// plain EOF".
func DrawSchedule(c choice.Chooser) Schedule {
	return Schedule{
		Chunk:     c.Intn("io:chunk", ChunkKinds),
		End:       c.Intn("io:end", EndKinds),
		EmptyRead: c.Intn("io:empty", 4) == 3,
	}
}

var randomSizes = []int{1, 2, 3, 7, 64, 512, 4096}

// Stream is a reader over data with a delivery schedule.
type Stream struct {
	data  []byte
	pos   int
	sch   Schedule
	c     choice.Chooser
	empty int // consecutive empty reads delivered

	Reads          int
	ReadsAfterEnd  int
	EndDelivered   bool
	EmptyDelivered int
	// MaxAfterEnd bounds reads after the terminal error; exceeding it
	// panics with Livelock.
	MaxAfterEnd int
	// MaxReads bounds the total number of reads (0: 64*len+4096).
	MaxReads int
}

func NewStream(data []byte, sch Schedule, c choice.Chooser) *Stream {
	return &Stream{data: data, sch: sch, c: c, MaxAfterEnd: 1000}
}

func (s *Stream) endErr() error {
	switch s.sch.End {
	case EndUnexpected:
		return io.ErrUnexpectedEOF
	case EndTransport:
		return ErrTransport
	}
	return io.EOF
}

func (s *Stream) Read(p []byte) (int, error) {
	s.Reads++
	max := s.MaxReads
	if max == 0 {
		max = 64*len(s.data) + 4096
	}
	if s.Reads > max {
		panic(Livelock{s.Reads})
	}
	if len(p) == 0 {
		return 0, nil
	}
	if s.pos >= len(s.data) {
		if s.EndDelivered {
			s.ReadsAfterEnd++
			if s.ReadsAfterEnd > s.MaxAfterEnd {
				panic(Livelock{s.ReadsAfterEnd})
			}
		}
		s.EndDelivered = true
		return 0, s.endErr()
	}
	if s.sch.EmptyRead && s.empty < 2 && s.c.Intn("io:emptynow", 5) == 4 {
		s.empty++
		s.EmptyDelivered++
		return 0, nil
	}
	s.empty = 0
	n := len(p)
	switch s.sch.Chunk {
	case ChunkOne:
		n = 1
	case ChunkRandom:
		n = randomSizes[s.c.Intn("io:size", len(randomSizes))]
	}
	if n > len(p) {
		n = len(p)
	}
	if n > len(s.data)-s.pos {
		n = len(s.data) - s.pos
	}
	copy(p, s.data[s.pos:s.pos+n])
	s.pos += n
	if s.pos >= len(s.data) && s.sch.End == EndEOFWithData {
		s.EndDelivered = true
		return n, io.EOF
	}
	return n, nil
}
