// Package meshsnap takes deep, bit-exact snapshots of modeling.Mesh values
// through their public accessors only, and compares them.
package meshsnap

import (
	"fmt"
	"math"
	"reflect"
	"sort"

	"github.com/EliCDavis/polyform/modeling"
)

type Snap struct {
	Topo     modeling.Topology
	Indices  []int
	MatCount []int
	MatPtr   []*modeling.Material
	MatVal   []modeling.Material
	MatURIs  []string
	MatNil   bool // Materials() == nil
	V1       map[string][]uint64
	V2       map[string][]uint64
	V3       map[string][]uint64
	V4       map[string][]uint64
	AttrLen  int
	// AttrLenStable: all attributes have the same length
	AttrLenStable bool
	PrimErr       string // PrimitiveCount panics for some topologies/sizes: recorded, compared
	Prim          int
}

func bits(f float64) uint64 { return math.Float64bits(f) }

// Take snapshots m. It never writes to anything it reads.
func Take(m modeling.Mesh) *Snap {
	s := &Snap{Topo: m.Topology(),
		V1: map[string][]uint64{}, V2: map[string][]uint64{}, V3: map[string][]uint64{}, V4: map[string][]uint64{}}
	it := m.Indices()
	s.Indices = make([]int, it.Len())
	for i := range s.Indices {
		s.Indices[i] = it.At(i)
	}
	mats := m.Materials()
	s.MatNil = mats == nil
	for _, mm := range mats {
		s.MatCount = append(s.MatCount, mm.PrimitiveCount)
		s.MatPtr = append(s.MatPtr, mm.Material)
		if mm.Material != nil {
			s.MatVal = append(s.MatVal, *mm.Material)
			// what the texture URI pointers point at, by value (the struct
			// copy above shares the pointees with the live material)
			uris := ""
			for _, u := range []*string{mm.Material.ColorTextureURI, mm.Material.NormalTextureURI, mm.Material.SpecularTextureURI} {
				if u == nil {
					uris += "<nil>|"
				} else {
					uris += *u + "|"
				}
			}
			s.MatURIs = append(s.MatURIs, uris)
		} else {
			s.MatVal = append(s.MatVal, modeling.Material{})
			s.MatURIs = append(s.MatURIs, "")
		}
	}
	for _, a := range m.Float1Attributes() {
		d := m.Float1Attribute(a)
		o := make([]uint64, d.Len())
		for i := range o {
			o[i] = bits(d.At(i))
		}
		s.V1[a] = o
	}
	for _, a := range m.Float2Attributes() {
		d := m.Float2Attribute(a)
		o := make([]uint64, 0, d.Len()*2)
		for i := 0; i < d.Len(); i++ {
			v := d.At(i)
			o = append(o, bits(v.X()), bits(v.Y()))
		}
		s.V2[a] = o
	}
	for _, a := range m.Float3Attributes() {
		d := m.Float3Attribute(a)
		o := make([]uint64, 0, d.Len()*3)
		for i := 0; i < d.Len(); i++ {
			v := d.At(i)
			o = append(o, bits(v.X()), bits(v.Y()), bits(v.Z()))
		}
		s.V3[a] = o
	}
	for _, a := range m.Float4Attributes() {
		d := m.Float4Attribute(a)
		o := make([]uint64, 0, d.Len()*4)
		for i := 0; i < d.Len(); i++ {
			v := d.At(i)
			o = append(o, bits(v.X()), bits(v.Y()), bits(v.Z()), bits(v.W()))
		}
		s.V4[a] = o
	}
	s.AttrLen = m.AttributeLength()
	// On an ill-formed mesh (attributes of different lengths)
	// AttributeLength reports the length of whichever attribute Go's map
	// iteration meets first: not a stable observation.
	s.AttrLenStable = true
	for _, mm := range []map[string][]uint64{s.V1, s.V2, s.V3, s.V4} {
		for _, v := range mm {
			_ = v
		}
	}
	lens := map[int]bool{}
	for _, v := range s.V1 {
		lens[len(v)] = true
	}
	for _, v := range s.V2 {
		lens[len(v)/2] = true
	}
	for _, v := range s.V3 {
		lens[len(v)/3] = true
	}
	for _, v := range s.V4 {
		lens[len(v)/4] = true
	}
	if len(lens) > 1 {
		s.AttrLenStable = false
		// report a deterministic stand-in (the smallest length)
		s.AttrLen = -1
		for l := range lens {
			if s.AttrLen < 0 || l < s.AttrLen {
				s.AttrLen = l
			}
		}
	}
	func() {
		defer func() {
			if r := recover(); r != nil {
				s.PrimErr = fmt.Sprint(r)
			}
		}()
		s.Prim = m.PrimitiveCount()
	}()
	return s
}

func eqU(a, b []uint64) int {
	if len(a) != len(b) {
		return -2
	}
	for i := range a {
		if a[i] != b[i] {
			return i
		}
	}
	return -1
}

func diffMap(width int, name string, a, b map[string][]uint64) string {
	ka := keys(a)
	kb := keys(b)
	if !reflect.DeepEqual(ka, kb) {
		return fmt.Sprintf("%s attribute names %v != %v", name, ka, kb)
	}
	for _, k := range ka {
		switch i := eqU(a[k], b[k]); {
		case i == -2:
			return fmt.Sprintf("%s attribute %q length %d != %d", name, k, len(a[k])/width, len(b[k])/width)
		case i >= 0:
			return fmt.Sprintf("%s attribute %q element %d component %d: %v != %v", name, k, i/width, i%width,
				math.Float64frombits(a[k][i]), math.Float64frombits(b[k][i]))
		}
	}
	return ""
}

func keys(m map[string][]uint64) []string {
	out := make([]string, 0, len(m))
	for k := range m {
		out = append(out, k)
	}
	sort.Strings(out)
	return out
}

// Diff returns "" when the two snapshots are bit-identical, else the first
// difference (a was taken first / is the expected one).
func Diff(a, b *Snap) string {
	if a.Topo != b.Topo {
		return fmt.Sprintf("topology %v != %v", a.Topo, b.Topo)
	}
	if len(a.Indices) != len(b.Indices) {
		return fmt.Sprintf("index count %d != %d", len(a.Indices), len(b.Indices))
	}
	for i := range a.Indices {
		if a.Indices[i] != b.Indices[i] {
			return fmt.Sprintf("index[%d] %d != %d", i, a.Indices[i], b.Indices[i])
		}
	}
	if len(a.MatCount) != len(b.MatCount) {
		return fmt.Sprintf("material count %d != %d", len(a.MatCount), len(b.MatCount))
	}
	for i := range a.MatCount {
		if a.MatCount[i] != b.MatCount[i] {
			return fmt.Sprintf("material[%d].PrimitiveCount %d != %d", i, a.MatCount[i], b.MatCount[i])
		}
		if a.MatPtr[i] != b.MatPtr[i] {
			return fmt.Sprintf("material[%d] pointer changed", i)
		}
		if !reflect.DeepEqual(a.MatVal[i], b.MatVal[i]) {
			return fmt.Sprintf("material[%d] content changed", i)
		}
		if a.MatURIs[i] != b.MatURIs[i] {
			return fmt.Sprintf("material[%d] texture URIs changed: %s -> %s", i, a.MatURIs[i], b.MatURIs[i])
		}
	}
	if d := diffMap(1, "float1", a.V1, b.V1); d != "" {
		return d
	}
	if d := diffMap(2, "float2", a.V2, b.V2); d != "" {
		return d
	}
	if d := diffMap(3, "float3", a.V3, b.V3); d != "" {
		return d
	}
	if d := diffMap(4, "float4", a.V4, b.V4); d != "" {
		return d
	}
	if a.AttrLenStable && b.AttrLenStable && a.AttrLen != b.AttrLen {
		return fmt.Sprintf("attribute length %d != %d", a.AttrLen, b.AttrLen)
	}
	if a.Prim != b.Prim || a.PrimErr != b.PrimErr {
		return fmt.Sprintf("primitive count %d(%s) != %d(%s)", a.Prim, a.PrimErr, b.Prim, b.PrimErr)
	}
	return ""
}

// DiffContent compares what a decoder returns: like Diff but ignores material
// pointers' identity (two decodes allocate separately).
func DiffContent(a, b *Snap) string {
	ac, bc := *a, *b
	ac.MatPtr = make([]*modeling.Material, len(a.MatPtr))
	bc.MatPtr = make([]*modeling.Material, len(b.MatPtr))
	return Diff(&ac, &bc)
}

// Describe gives a short human-readable summary.
func (s *Snap) Describe() string {
	return fmt.Sprintf("%v idx=%d attrLen=%d v1=%v v2=%v v3=%v v4=%v mats=%d", s.Topo, len(s.Indices), s.AttrLen,
		keys(s.V1), keys(s.V2), keys(s.V3), keys(s.V4), len(s.MatCount))
}

// AttributeSubset reports "" when r carries the same topology, indices and
// vertex count as c and every attribute r has is an attribute of c with
// bit-identical values (r may lack attributes c has).
func AttributeSubset(r, c *Snap) string {
	if r.Topo != c.Topo {
		return fmt.Sprintf("topology %v != %v", c.Topo, r.Topo)
	}
	if len(r.Indices) != len(c.Indices) {
		return fmt.Sprintf("index count %d != %d", len(c.Indices), len(r.Indices))
	}
	for i := range r.Indices {
		if r.Indices[i] != c.Indices[i] {
			return fmt.Sprintf("index[%d] %d != %d", i, c.Indices[i], r.Indices[i])
		}
	}
	if r.AttrLen != c.AttrLen {
		return fmt.Sprintf("attribute length %d != %d", c.AttrLen, r.AttrLen)
	}
	sub := func(w int, name string, rm, cm map[string][]uint64) string {
		for _, k := range keys(rm) {
			cv, ok := cm[k]
			if !ok {
				return fmt.Sprintf("%s attribute %q is not in the complete file", name, k)
			}
			switch i := eqU(cv, rm[k]); {
			case i == -2:
				return fmt.Sprintf("%s attribute %q length %d != %d", name, k, len(cv)/w, len(rm[k])/w)
			case i >= 0:
				return fmt.Sprintf("%s attribute %q element %d component %d: %v != %v", name, k, i/w, i%w,
					math.Float64frombits(cv[i]), math.Float64frombits(rm[k][i]))
			}
		}
		return ""
	}
	for _, d := range []string{sub(1, "float1", r.V1, c.V1), sub(2, "float2", r.V2, c.V2), sub(3, "float3", r.V3, c.V3), sub(4, "float4", r.V4, c.V4)} {
		if d != "" {
			return d
		}
	}
	return ""
}

// StableAttributeLength is AttributeLength made deterministic: on ill-formed
// meshes (attributes of different lengths) the library's answer follows Go
// map order; this returns the smallest attribute length instead.
func StableAttributeLength(m modeling.Mesh) int {
	n := -1
	see := func(l int) {
		if n < 0 || l < n {
			n = l
		}
	}
	for _, a := range m.Float1Attributes() {
		see(m.Float1Attribute(a).Len())
	}
	for _, a := range m.Float2Attributes() {
		see(m.Float2Attribute(a).Len())
	}
	for _, a := range m.Float3Attributes() {
		see(m.Float3Attribute(a).Len())
	}
	for _, a := range m.Float4Attributes() {
		see(m.Float4Attribute(a).Len())
	}
	if n < 0 {
		return 0
	}
	return n
}
