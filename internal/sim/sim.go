// Package sim holds the types shared by every scenario, the worker and the
// orchestrator.
package sim

import (
	"verif/internal/choice"
)

// Violation is a property violation found in one run. Class is stable across
// shrinking (it names the oracle clause and, where relevant, the entry point
// or the pair of racing functions) and is what known-findings match on.
type Violation struct {
	Class  string `json:"class"`
	Msg    string `json:"msg"`
	Detail any    `json:"detail,omitempty"`
}

// Result is what one simulated run reports.
type Result struct {
	Violation *Violation `json:"violation,omitempty"`
	// Sig identifies the case explored (history / schedule signature).
	Sig string `json:"sig"`
	// Nontrivial per the property's stated rule.
	Nontrivial bool `json:"nontrivial"`
	// Evals is the number of oracle evaluations in this run (e.g. cut points
	// decoded); at least 1.
	Evals int `json:"evals"`
	// Steps: scheduler steps / stream operations / history operations.
	Steps int `json:"steps"`
	// Counts: fault kinds that actually fired, probes that were hit, outcome
	// classes. Summed over runs by the orchestrator.
	Counts map[string]int `json:"counts,omitempty"`
	// Cells: distinct coverage cells reached (set union over runs).
	Cells []string `json:"cells,omitempty"`
	// Sample is a readable rendering of the case, kept for a few runs.
	Sample any `json:"sample,omitempty"`
	// Log is the event log of the run (determinism self-test hashes it).
	LogHash string `json:"loghash,omitempty"`
	// DetHash, when set, is what the determinism self-test compares instead
	// of Sig+LogHash: the case executed plus the scheduler's decision log
	// (at every step: who was runnable, who was released). Sig and LogHash
	// of scheduled scenarios also hash the sites each task passed through;
	// their order inside one task can follow Go map iteration order inside
	// the library (a loop over a map with a synchronisation operation in
	// its body), which no seam controls and which decides nothing.
	DetHash string `json:"dethash,omitempty"`
}

func (r *Result) Count(k string, n int) {
	if r.Counts == nil {
		r.Counts = map[string]int{}
	}
	r.Counts[k] += n
}

// Options are per-invocation settings that are not part of the choice stream.
type Options struct {
	Tier       string // quick | thorough
	WantSample bool
	RaceLog    string // path prefix of GORACE log_path (empty when not -race)
	Repo       string
}

// Scenario is one simulated world for one property.
type Scenario interface {
	// Prop is the property id, Name the scenario family.
	Prop() string
	Name() string
	// Isolated scenarios must be replayed in a fresh process when
	// shrinking (race reports, leaked goroutines).
	Isolated() bool
	// NeedsRace: the worker must be a -race build.
	NeedsRace() bool
	Run(c choice.Chooser, opt Options) Result
}

// Record is the worker's output line for one run and, with Trace filled in,
// the body of a replay file.
type Record struct {
	Prop     string `json:"property"`
	Scenario string `json:"scenario"`
	Seed     int64  `json:"seed"`
	Run      int    `json:"run"`
	// Tier the run was generated under (some generators draw deeper bounds
	// in the thorough tier; a replay must use the same).
	Tier        string         `json:"tier,omitempty"`
	Result      Result         `json:"result"`
	Trace       []choice.Entry `json:"trace,omitempty"`
	Race        bool           `json:"race_build"`
	WallUS      int64          `json:"wall_us"`
	Minimised   bool           `json:"minimised,omitempty"`
	ShrinkTries int            `json:"shrink_tries,omitempty"`
	OrigLen     int            `json:"orig_trace_len,omitempty"`
	// Regenerate: the trace is not known (the process died); re-derive it
	// from Seed/Run.
	Regenerate bool `json:"regenerate,omitempty"`
}
