// Package shrink minimises a failing choice sequence (Hypothesis-style
// reduction over the integer record of a run). The predicate decides whether
// a candidate still fails *in the same class*; it is the caller's business to
// run it in-process or in a fresh worker process.
package shrink

import (
	"strings"
	"time"

	"verif/internal/choice"
)

// Test replays a candidate. It returns the effective trace of that replay
// (so labels stay aligned with values after structural edits) and whether the
// same violation class was reproduced.
type Test func(vals []int) (trace []choice.Entry, same bool)

type Stats struct {
	Tries    int
	Accepted int
	From, To int
}

// Minimize returns a (locally) minimal failing sequence. start must fail.
func Minimize(start []choice.Entry, test Test, maxTries int, deadline time.Time) ([]choice.Entry, Stats) {
	cur := trimTrace(start)
	st := Stats{From: len(start)}
	try := func(vals []int) bool {
		if st.Tries >= maxTries || time.Now().After(deadline) {
			return false
		}
		st.Tries++
		tr, same := test(vals)
		if !same {
			return false
		}
		tr = trimTrace(tr)
		// accept only if not larger (lexicographic on length, then sum)
		if weight(tr) > weight(cur) {
			return false
		}
		cur = tr
		st.Accepted++
		return true
	}
	exhausted := func() bool { return st.Tries >= maxTries || time.Now().After(deadline) }

	for round := 0; round < 8 && !exhausted(); round++ {
		before := weight(cur)

		// 1. delete whole labelled spans (an operation = everything from one
		// "op"-labelled draw to the next), zeroing the "more" draw in front
		// of it does not work in general, so we splice.
		for _, prefix := range []string{"op", "sched", ""} {
			if prefix == "" {
				continue
			}
			i := len(cur) - 1
			for i >= 0 && !exhausted() {
				if !strings.HasPrefix(cur[i].L, prefix) {
					i--
					continue
				}
				j := i + 1
				for j < len(cur) && !strings.HasPrefix(cur[j].L, prefix) {
					j++
				}
				vals := choice.Values(cur)
				cand := append(append([]int{}, vals[:i]...), vals[j:]...)
				try(cand)
				i--
				if i >= len(cur) {
					i = len(cur) - 1
				}
			}
		}

		// 2. delete blocks of k entries
		for k := 16; k >= 1 && !exhausted(); k /= 2 {
			i := len(cur) - k
			for i >= 0 && !exhausted() {
				vals := choice.Values(cur)
				if i+k <= len(vals) {
					cand := append(append([]int{}, vals[:i]...), vals[i+k:]...)
					if try(cand) {
						if i > len(cur)-k {
							i = len(cur) - k
						}
						continue
					}
				}
				i--
			}
		}

		// 3. zero blocks, then single values
		for k := 8; k >= 1 && !exhausted(); k /= 2 {
			for i := 0; i+k <= len(cur) && !exhausted(); i++ {
				vals := choice.Values(cur)
				nz := false
				for j := i; j < i+k; j++ {
					if vals[j] != 0 {
						nz = true
						vals[j] = 0
					}
				}
				if nz {
					try(vals)
				}
			}
		}

		// 4. lower single values: halve, then decrement
		for i := 0; i < len(cur) && !exhausted(); i++ {
			for cur[i].V > 0 && !exhausted() {
				vals := choice.Values(cur)
				vals[i] = cur[i].V / 2
				if try(vals) {
					if i >= len(cur) {
						break
					}
					continue
				}
				vals = choice.Values(cur)
				vals[i] = cur[i].V - 1
				if vals[i] == cur[i].V/2 || !try(vals) {
					break
				}
				if i >= len(cur) {
					break
				}
			}
		}

		if weight(cur) >= before {
			break
		}
	}
	st.To = len(cur)
	return cur, st
}

type w struct{ n, sum int }

func weight(t []choice.Entry) int64 {
	s := 0
	for _, e := range t {
		s += e.V
	}
	return int64(len(t))<<32 + int64(s)
}

// trimTrace drops trailing zero draws (an exhausted replay yields zeros).
func trimTrace(t []choice.Entry) []choice.Entry {
	n := len(t)
	for n > 0 && t[n-1].V == 0 {
		n--
	}
	return append([]choice.Entry{}, t[:n]...)
}
