// Package detsched is a seeded scheduler for real goroutines.
//
// Exactly one task is released at a time; which one is drawn from the choice
// stream, so a schedule is part of the replayable integer record of a run.
// Tasks park and are released through raw pipe system calls: the kernel orders
// them, the race detector does not see them, so ThreadSanitizer still judges
// the program by its *own* synchronisation only. A task that blocks inside a
// real primitive (sync.Mutex, channel, WaitGroup, Cond) is recognised from a
// goroutine dump.
package detsched

import (
	"fmt"
	"os"
	"runtime"
	"sort"
	"strings"
	"sync"
	"syscall"
	"time"
	"unsafe"

	"verif/internal/choice"
)

// ---------------------------------------------------------------- wire format

const msgSize = 64

const (
	kYield = 1 + iota
	kHello // first contact of a goroutine: carries its pipe fds
	kExit  // root task finished
)

const siteMax = msgSize - 8 - 1 - 4 - 4 - 8 - 1 - 4

// ---------------------------------------------------------------- task table

type slot struct {
	goid uint64
	rfd  int32
}

const tableSize = 1 << 10

// ---------------------------------------------------------------- scheduler

type taskState int

const (
	stNew taskState = iota
	stParked
	stRunning
	stBlocked
	stExited
)

func (s taskState) String() string {
	return [...]string{"new", "parked", "running", "blocked", "exited"}[s]
}

type task struct {
	id     int
	name   string
	goid   uint64
	rfd    int
	wfd    int
	state  taskState
	site   string
	aux    int64
	root   bool
	parent int
	prio   int
	steps  int
	reason string // last wait reason seen in a dump
}

// Event is one entry of the schedule log.
type Event struct {
	Step int64  `json:"step"` // scheduler step during which the task parked here
	Task int    `json:"task"`
	Site string `json:"site"`
	Aux  int64  `json:"aux,omitempty"`
	// Released: the step at which the task was released from this park
	// (0 = never).
	Released int64 `json:"released,omitempty"`
	seq      int
}

// Outcome of a scheduled execution.
type Outcome struct {
	Steps    int64
	Events   []Event
	Deadlock bool
	// Leaked: goroutines left behind blocked forever after every root task
	// had finished.
	Leaked     int
	NoProgress bool
	Blocked    []string // tasks blocked at the end (deadlock description)
	Panics     map[string]string
	Trouble    string // harness trouble (not a property violation)
	Switches   int    // context switches between different tasks
	Tasks      int
	Dumps      int
	Adopted    int
	PolicyName string
	// Decisions hashes the decision log: for every step the released task
	// and the set of tasks it was chosen from, and how the run ended. Unlike
	// Signature it does not contain the sites.
	Decisions string
}

// Policy kinds (drawn per run).
const (
	PolRandom = iota
	PolPCT
	PolRoundRobin
	PolStarveOne
	PolNewestFirst
	PolSticky
	PolKinds
)

var policyNames = []string{"random", "pct", "round-robin", "starve-one", "newest-first", "sticky"}

type Sched struct {
	ch     choice.Chooser
	cmdR   int
	cmdW   int
	tasks  []*task
	byGoid map[uint64]*task
	// anon: goroutines spawned by tasks that were seen in a goroutine dump
	// but have not reached a yield point yet. They are waited for, but get
	// a logical id only when they first yield: whether a short-lived child
	// is ever caught by a dump is a matter of timing and must not influence
	// ids, policies or the event log.
	anon   map[uint64]*task
	table  [tableSize]slot
	step   int64
	events []Event
	seq    int
	roots  []rootSpec
	wg     sync.WaitGroup

	policy      int
	changePts   map[int64]bool
	victim      int
	lastPicked  int
	rrNext      int
	expectChild bool
	// baseG: goroutines of the process that are not tasks of this run
	// (NumGoroutine minus the known live tasks, re-measured at every dump).
	// A difference means a task started or lost a goroutine the scheduler
	// has not been told about: look before deciding.
	baseG int

	// Budget: steps driven by the drawn policy; afterwards a fair
	// round-robin phase of at most FairBound steps must finish the run.
	Budget    int64
	FairBound int64

	panicMu sync.Mutex
	panics  map[string]string
	decHash uint64

	out      Outcome
	dumpBuf  []byte
	openFds  []int
	lastEvOf map[int]int // task id -> index in events of its current park
}

type rootSpec struct {
	name string
	fn   func()
}

// active is read by Yield without synchronisation the race detector could see.
var active *Sched

// New creates a scheduler drawing its decisions from ch.
func New(ch choice.Chooser) *Sched {
	return &Sched{ch: ch, byGoid: map[uint64]*task{}, anon: map[uint64]*task{}, panics: map[string]string{}, Budget: 400, FairBound: 4000, lastEvOf: map[int]int{}, lastPicked: -1}
}

// Go registers a root task. Logical ids follow the order of Go calls.
func (s *Sched) Go(name string, fn func()) {
	s.roots = append(s.roots, rootSpec{name, fn})
}

// ---------------------------------------------------------------- raw syscalls

func rawWrite(fd int, p []byte) {
	for len(p) > 0 {
		n, _, e := syscall.Syscall(syscall.SYS_WRITE, uintptr(fd), uintptr(unsafe.Pointer(&p[0])), uintptr(len(p)))
		if e == syscall.EINTR || e == syscall.EAGAIN {
			continue
		}
		if e != 0 {
			return
		}
		p = p[n:]
	}
}

// rawReadFull blocks until len(p) bytes arrived. Returns false on EOF/error.
func rawReadFull(fd int, p []byte) bool {
	for len(p) > 0 {
		n, _, e := syscall.Syscall(syscall.SYS_READ, uintptr(fd), uintptr(unsafe.Pointer(&p[0])), uintptr(len(p)))
		if e == syscall.EINTR {
			continue
		}
		if e != 0 || n == 0 {
			return false
		}
		p = p[n:]
	}
	return true
}

func rawPipe() (r, w int, ok bool) {
	var p [2]int32
	_, _, e := syscall.RawSyscall(syscall.SYS_PIPE2, uintptr(unsafe.Pointer(&p[0])), syscall.O_CLOEXEC, 0)
	if e != 0 {
		return 0, 0, false
	}
	return int(p[0]), int(p[1]), true
}

type pollFd struct {
	fd      int32
	events  int16
	revents int16
}

// waitReadable waits until fd is readable or d elapsed.
func waitReadable(fd int, d time.Duration) {
	pfd := pollFd{fd: int32(fd), events: 1}
	ts := syscall.NsecToTimespec(int64(d))
	syscall.Syscall6(syscall.SYS_PPOLL, uintptr(unsafe.Pointer(&pfd)), 1, uintptr(unsafe.Pointer(&ts)), 0, 0, 0)
}

func cpuNow() time.Duration {
	var ru syscall.Rusage
	syscall.Getrusage(syscall.RUSAGE_SELF, &ru)
	return time.Duration(ru.Utime.Nano() + ru.Stime.Nano())
}

// ---------------------------------------------------------------- task side

//go:norace
func goid() uint64 {
	var buf [40]byte
	n := runtime.Stack(buf[:], false)
	// "goroutine 123 ["
	var id uint64
	for i := 10; i < n; i++ {
		c := buf[i]
		if c < '0' || c > '9' {
			break
		}
		id = id*10 + uint64(c-'0')
	}
	return id
}

//go:norace
func (s *Sched) lookup(g uint64) int {
	i := int(g*0x9e3779b97f4a7c15>>40) & (tableSize - 1)
	for k := 0; k < tableSize; k++ {
		sl := &s.table[(i+k)&(tableSize-1)]
		if sl.goid == g {
			return int(sl.rfd)
		}
		if sl.goid == 0 {
			return -1
		}
	}
	return -1
}

func (s *Sched) insert(g uint64, rfd int) {
	i := int(g*0x9e3779b97f4a7c15>>40) & (tableSize - 1)
	for k := 0; k < tableSize; k++ {
		sl := &s.table[(i+k)&(tableSize-1)]
		if sl.goid == 0 || sl.goid == g {
			sl.goid = g
			sl.rfd = int32(rfd)
			return
		}
	}
	panic("detsched: task table full")
}

//go:norace
func putU64(b []byte, v uint64) {
	for i := 0; i < 8; i++ {
		b[i] = byte(v >> (8 * i))
	}
}

//go:norace
func getU64(b []byte) uint64 {
	var v uint64
	for i := 0; i < 8; i++ {
		v |= uint64(b[i]) << (8 * i)
	}
	return v
}

// Active reports whether a scheduler is running (hooks are no-ops otherwise).
//
//go:norace
func Active() bool { return active != nil }

// Yield parks the calling goroutine at a named scheduling point until the
// scheduler releases it; returns the step number of the release (-1 when no
// scheduler is active).
//
//go:norace
func Yield(site string, aux int64) int64 {
	s := active
	if s == nil {
		return -1
	}
	return s.send(kYield, site, aux)
}

//go:norace
func (s *Sched) send(kind byte, site string, aux int64) int64 {
	g := goid()
	rfd := s.lookup(g)
	var msg [msgSize]byte
	putU64(msg[0:], g)
	msg[8] = kind
	if rfd < 0 && kind != kExit {
		r, w, ok := rawPipe()
		if !ok {
			return -1
		}
		if kind == kYield {
			msg[8] = kHello
		}
		putU64(msg[9:], uint64(uint32(r))|uint64(uint32(w))<<32)
		rfd = r
	}
	putU64(msg[17:], uint64(aux))
	n := len(site)
	if n > siteMax {
		n = siteMax
	}
	msg[25] = byte(n)
	for i := 0; i < n; i++ {
		msg[26+i] = site[i]
	}
	rawWrite(s.cmdW, msg[:])
	if kind == kExit {
		return 0
	}
	var rel [8]byte
	if !rawReadFull(rfd, rel[:]) {
		// scheduler went away: run free
		return -1
	}
	return int64(getU64(rel[:]))
}

// ---------------------------------------------------------------- scheduler side

func (s *Sched) newTask(goid uint64, name string, root bool, parent int) *task {
	t := &task{id: len(s.tasks), name: name, goid: goid, root: root, parent: parent, rfd: -1, wfd: -1}
	s.tasks = append(s.tasks, t)
	s.byGoid[goid] = t
	if s.policy == PolPCT {
		t.prio = 1 + s.ch.Intn("sched:prio", 1000)
	}
	return t
}

// drain reads all pending messages. Returns how many were processed.
func (s *Sched) drain(rootHello map[int64]*task) int {
	n := 0
	var buf [msgSize * 64]byte
	for {
		k, _, e := syscall.Syscall(syscall.SYS_READ, uintptr(s.cmdR), uintptr(unsafe.Pointer(&buf[0])), uintptr(len(buf)))
		if e == syscall.EINTR {
			continue
		}
		if e != 0 || k == 0 {
			return n
		}
		for off := 0; off+msgSize <= int(k); off += msgSize {
			s.handle(buf[off:off+msgSize], rootHello)
			n++
		}
		if int(k) < len(buf) {
			return n
		}
	}
}

func (s *Sched) handle(m []byte, rootHello map[int64]*task) {
	g := getU64(m[0:])
	kind := m[8]
	aux := int64(getU64(m[17:]))
	site := string(m[26 : 26+int(m[25])])
	t := s.byGoid[g]
	switch kind {
	case kHello:
		fds := getU64(m[9:])
		r, w := int(uint32(fds)), int(uint32(fds>>32))
		if t == nil {
			if strings.HasPrefix(site, "root:") {
				// root tasks are pre-registered; bind by index (aux)
				t = rootHello[aux]
				t.goid = g
				s.byGoid[g] = t
			} else {
				delete(s.anon, g)
				t = s.newTask(g, fmt.Sprintf("child%d", len(s.tasks)), false, s.lastPicked)
				s.out.Adopted++
			}
		}
		t.rfd, t.wfd = r, w
		s.openFds = append(s.openFds, r, w)
		s.insert(g, r)
		s.park(t, site, aux)
	case kYield:
		if t == nil {
			s.out.Trouble = fmt.Sprintf("yield from unknown goroutine %d at %s", g, site)
			return
		}
		s.park(t, site, aux)
	case kExit:
		if t != nil {
			t.state = stExited
		}
	}
}

func (s *Sched) park(t *task, site string, aux int64) {
	t.state = stParked
	t.site = site
	t.aux = aux
	s.seq++
	s.events = append(s.events, Event{Step: s.step, Task: t.id, Site: site, Aux: aux, seq: s.seq})
	s.lastEvOf[t.id] = len(s.events) - 1
	if strings.HasPrefix(site, "spawn") || strings.HasSuffix(site, ":spawn") {
		s.expectChild = true
	}
}

var blockedReasons = map[string]bool{
	"chan receive": true, "chan send": true, "select": true, "select (no cases)": true,
	"chan receive (nil chan)": true, "chan send (nil chan)": true,
	"sync.Mutex.Lock": true, "sync.RWMutex.RLock": true, "sync.RWMutex.Lock": true,
	"sync.WaitGroup.Wait": true, "sync.Cond.Wait": true, "IO wait": true,
}

type ginfo struct {
	reason    string
	createdBy uint64
}

func parseDump(b []byte) map[uint64]ginfo {
	out := map[uint64]ginfo{}
	s := string(b)
	for _, block := range strings.Split(s, "\n\n") {
		if !strings.HasPrefix(block, "goroutine ") {
			continue
		}
		var id uint64
		i := 10
		for i < len(block) && block[i] >= '0' && block[i] <= '9' {
			id = id*10 + uint64(block[i]-'0')
			i++
		}
		lb := strings.IndexByte(block, '[')
		rb := strings.IndexByte(block, ']')
		if lb < 0 || rb < lb {
			continue
		}
		reason := block[lb+1 : rb]
		if c := strings.IndexByte(reason, ','); c >= 0 {
			reason = reason[:c]
		}
		if reason == "semacquire" {
			// runtime-internal semaphores (worldsema while this very dump
			// stops the world, GC start, ...) share the wait reason with
			// sync.WaitGroup.Wait on this toolchain; only the latter is a
			// task blocked in a primitive of the program
			if strings.Contains(block, "sync.(*WaitGroup).Wait(") {
				reason = "sync.WaitGroup.Wait"
			} else {
				reason = "semacquire (runtime)"
			}
		}
		gi := ginfo{reason: reason}
		if k := strings.LastIndex(block, " in goroutine "); k >= 0 {
			j := k + len(" in goroutine ")
			var p uint64
			for j < len(block) && block[j] >= '0' && block[j] <= '9' {
				p = p*10 + uint64(block[j]-'0')
				j++
			}
			gi.createdBy = p
		}
		out[id] = gi
	}
	return out
}

func (s *Sched) dump() map[uint64]ginfo {
	if s.dumpBuf == nil {
		s.dumpBuf = make([]byte, 1<<20)
	}
	for {
		n := runtime.Stack(s.dumpBuf, true)
		if n < len(s.dumpBuf) {
			s.out.Dumps++
			return parseDump(s.dumpBuf[:n])
		}
		s.dumpBuf = make([]byte, 2*len(s.dumpBuf))
	}
}

// settle waits until every task is parked, exited or blocked in a real
// primitive. Returns false on harness trouble.
func (s *Sched) settle(rootHello map[int64]*task, needRoots int) bool {
	backoff := 20 * time.Microsecond
	idle := 0
	start := time.Now()
	cpuStart := cpuNow()
	for {
		got := s.drain(rootHello)
		if s.out.Trouble != "" {
			return false
		}
		// roots must all have said hello before the first decision
		rootsMissing := 0
		for _, t := range s.tasks {
			if t.root && t.state == stNew {
				rootsMissing++
			}
		}
		needDump := s.expectChild || len(s.anon) > 0
		liveKnown := 0
		for _, t := range s.tasks {
			if t.state == stRunning || t.state == stBlocked {
				needDump = true
			}
			if t.state != stExited {
				liveKnown++
			}
		}
		if runtime.NumGoroutine() != s.baseG+liveKnown {
			needDump = true
		}
		if rootsMissing == 0 && !needDump {
			return true
		}
		settled := rootsMissing == 0
		if settled {
			gs := s.dump()
			// a message may have slipped in between drain and dump
			if s.drain(rootHello) > 0 {
				continue
			}
			for _, t := range s.tasks {
				if t.state != stRunning && t.state != stBlocked {
					continue
				}
				gi, ok := gs[t.goid]
				switch {
				case !ok:
					t.state = stExited
				case blockedReasons[gi.reason]:
					t.state = stBlocked
					t.reason = gi.reason
				default:
					t.state = stRunning
					settled = false
				}
			}
			for g, t := range s.anon {
				gi, ok := gs[g]
				switch {
				case !ok:
					delete(s.anon, g)
				case blockedReasons[gi.reason]:
					t.state = stBlocked
					t.reason = gi.reason
				default:
					t.state = stRunning
					settled = false
				}
			}
			// descendants of tasks that have not announced themselves
			for g, gi := range gs {
				if _, known := s.byGoid[g]; known || gi.createdBy == 0 {
					continue
				}
				if _, known := s.anon[g]; known {
					continue
				}
				_, p1 := s.byGoid[gi.createdBy]
				_, p2 := s.anon[gi.createdBy]
				if p1 || p2 {
					t := &task{id: -1, goid: g, name: "anon", rfd: -1, wfd: -1}
					s.anon[g] = t
					if blockedReasons[gi.reason] {
						t.state = stBlocked
						t.reason = gi.reason
					} else {
						t.state = stRunning
						settled = false
					}
				}
			}
			if settled {
				s.expectChild = false
				liveKnown = 0
				for _, t := range s.tasks {
					if t.state != stExited {
						liveKnown++
					}
				}
				s.baseG = runtime.NumGoroutine() - liveKnown - len(s.anon)
				return true
			}
		}
		if got == 0 {
			idle++
		} else {
			idle = 0
			backoff = 20 * time.Microsecond
		}
		// a task that neither parks nor blocks: judged by the CPU time the
		// process burns meanwhile, not by wall time (on an overloaded machine
		// a starved process makes no progress through no fault of its own);
		// wall time only as a last resort
		if cpu := cpuNow() - cpuStart; cpu > 300*time.Second || time.Since(start) > 45*time.Minute {
			s.out.Trouble = fmt.Sprintf("tasks did not settle (%v CPU, %v wall): %s", cpu.Round(time.Second), time.Since(start).Round(time.Second), s.describe())
			return false
		}
		waitReadable(s.cmdR, backoff)
		if backoff < 4*time.Millisecond {
			backoff *= 2
		}
	}
}

func (s *Sched) describe() string {
	var parts []string
	for _, t := range s.tasks {
		parts = append(parts, fmt.Sprintf("%s(#%d):%s@%s[%s]", t.name, t.id, t.state, t.site, t.reason))
	}
	return strings.Join(parts, " ")
}

// pick chooses the next task among the parked ones.
func (s *Sched) pick(cands []*task, fair bool) *task {
	if len(cands) == 1 {
		// still a recorded decision point only when there is a choice
		return cands[0]
	}
	if fair {
		// round robin over task ids
		for k := 0; k < len(s.tasks); k++ {
			id := (s.rrNext + k) % len(s.tasks)
			for _, c := range cands {
				if c.id == id {
					s.rrNext = id + 1
					return c
				}
			}
		}
		return cands[0]
	}
	switch s.policy {
	case PolPCT:
		if s.changePts[s.step] && s.lastPicked >= 0 && s.lastPicked < len(s.tasks) {
			s.tasks[s.lastPicked].prio = -int(s.step) // lowest so far
		}
		best := cands[0]
		for _, c := range cands[1:] {
			if c.prio > best.prio {
				best = c
			}
		}
		return best
	case PolRoundRobin:
		for k := 0; k < len(s.tasks); k++ {
			id := (s.rrNext + k) % len(s.tasks)
			for _, c := range cands {
				if c.id == id {
					s.rrNext = id + 1
					return c
				}
			}
		}
		return cands[0]
	case PolStarveOne:
		var rest []*task
		for _, c := range cands {
			if c.id != s.victim%len(s.tasks) {
				rest = append(rest, c)
			}
		}
		if len(rest) == 0 {
			return cands[0]
		}
		return rest[s.ch.Intn("sched:pick", len(rest))]
	case PolNewestFirst:
		if s.ch.Intn("sched:flip", 8) == 7 {
			return cands[s.ch.Intn("sched:pick", len(cands))]
		}
		return cands[len(cands)-1]
	case PolSticky:
		for _, c := range cands {
			if c.id == s.lastPicked && s.ch.Intn("sched:switch", 6) != 5 {
				return c
			}
		}
		return cands[s.ch.Intn("sched:pick", len(cands))]
	}
	return cands[s.ch.Intn("sched:pick", len(cands))]
}

// Run executes the registered root tasks under the seeded schedule and
// returns when all of them have finished (or the run is stuck).
func (s *Sched) Run() Outcome {
	r, w, ok := rawPipe()
	if !ok {
		return Outcome{Trouble: "cannot create command pipe"}
	}
	s.cmdR, s.cmdW = r, w
	syscall.SetNonblock(s.cmdR, true)
	s.openFds = append(s.openFds, r, w)
	defer s.cleanup()

	// per-run policy knobs
	s.policy = s.ch.Intn("sched:policy", PolKinds)
	s.out.PolicyName = policyNames[s.policy]
	switch s.policy {
	case PolPCT:
		s.changePts = map[int64]bool{}
		d := 1 + s.ch.Intn("sched:pct-d", 3)
		for i := 0; i < d; i++ {
			s.changePts[int64(1+s.ch.Intn("sched:pct-at", 60))] = true
		}
	case PolStarveOne:
		s.victim = s.ch.Intn("sched:victim", 8)
	}

	rootHello := map[int64]*task{}
	active = s
	s.baseG = runtime.NumGoroutine()
	for i, rs := range s.roots {
		t := &task{id: len(s.tasks), name: rs.name, root: true, parent: -1, rfd: -1, wfd: -1}
		if s.policy == PolPCT {
			t.prio = 1 + s.ch.Intn("sched:prio", 1000)
		}
		s.tasks = append(s.tasks, t)
		rootHello[int64(i)] = t
	}
	for i, rs := range s.roots {
		s.wg.Add(1)
		go func(i int, rs rootSpec) {
			defer s.wg.Done()
			defer func() {
				if p := recover(); p != nil {
					buf := make([]byte, 4096)
					n := runtime.Stack(buf, false)
					s.panicMu.Lock()
					s.panics[rs.name] = fmt.Sprintf("%v\n%s", p, buf[:n])
					s.panicMu.Unlock()
				}
				if a := active; a != nil {
					a.send(kExit, "exit", 0)
				}
			}()
			s.send(kYield, "root:start", int64(i))
			rs.fn()
		}(i, rs)
	}

	fairSteps := int64(0)
	for {
		if !s.settle(rootHello, len(s.roots)) {
			break
		}
		var cands []*task
		live := 0
		for _, t := range s.tasks {
			switch t.state {
			case stParked:
				cands = append(cands, t)
				live++
			case stBlocked:
				live++
			}
		}
		if live == 0 && len(s.anon) == 0 {
			break
		}
		rootsAlive := false
		for _, t := range s.tasks {
			if t.root && t.state != stExited {
				rootsAlive = true
			}
		}
		if len(cands) == 0 {
			if !rootsAlive {
				// every call returned; goroutines the calls left behind and
				// that wait forever are a leak, not a deadlock of the call
				s.out.Leaked = live + len(s.anon)
				break
			}
			// nobody can be released and a caller waits forever
			s.out.Deadlock = true
			for _, t := range s.tasks {
				if t.state == stBlocked {
					s.out.Blocked = append(s.out.Blocked, fmt.Sprintf("%s blocked in %s after %s", t.name, t.reason, t.site))
				}
			}
			for _, t := range s.anon {
				s.out.Blocked = append(s.out.Blocked, fmt.Sprintf("unannounced goroutine blocked in %s", t.reason))
			}
			break
		}
		fair := s.step >= s.Budget
		if fair {
			fairSteps++
			if fairSteps > s.FairBound {
				s.out.NoProgress = true
				break
			}
		}
		sort.Slice(cands, func(i, j int) bool { return cands[i].id < cands[j].id })
		t := s.pick(cands, fair)
		s.step++
		s.decide(uint64(s.step))
		s.decide(uint64(t.id))
		for _, c := range cands {
			s.decide(uint64(c.id) + 1<<32)
		}
		if s.lastPicked >= 0 && s.lastPicked != t.id {
			s.out.Switches++
		}
		s.lastPicked = t.id
		t.state = stRunning
		t.steps++
		if i, ok := s.lastEvOf[t.id]; ok {
			s.events[i].Released = s.step
		}
		var rel [8]byte
		putU64(rel[:], uint64(s.step))
		rawWrite(t.wfd, rel[:])
	}

	stuck := s.out.Deadlock || s.out.NoProgress || s.out.Trouble != ""
	if !stuck {
		// the real join: only now may the harness read what tasks wrote.
		// (Also when goroutines were left behind - Leaked: every root has
		// returned, so this does not block, and without it the race
		// detector sees the harness read results with no happens-before
		// edge from the calls that produced them: a persistent worker pool
		// that outlives the call - benign change C10-g1 - was reported as a
		// race between the user callback and the harness.)
		s.wg.Wait()
	}
	if !stuck && s.out.Leaked == 0 {
		active = nil
	} else {
		// goroutines are left behind and may still consult 'active': leave
		// it set; the worker process is not reused after a dirty run
		Dirty = true
	}
	s.panicMu.Lock()
	s.out.Panics = s.panics
	s.panicMu.Unlock()
	s.out.Steps = s.step
	s.out.Tasks = len(s.tasks)
	for _, f := range []bool{s.out.Deadlock, s.out.NoProgress, s.out.Leaked > 0} {
		if f {
			s.decide(1)
		} else {
			s.decide(0)
		}
	}
	s.out.Decisions = fmt.Sprintf("%016x", s.decHash)
	// canonical order: by step, then task, then arrival within the task
	sort.SliceStable(s.events, func(i, j int) bool {
		a, b := s.events[i], s.events[j]
		if a.Step != b.Step {
			return a.Step < b.Step
		}
		if a.Task != b.Task {
			return a.Task < b.Task
		}
		return a.seq < b.seq
	})
	s.out.Events = s.events
	if f := os.Getenv("VERIF_EVENTS"); f != "" {
		// debugging aid: append the canonical event log of every run
		if w, err := os.OpenFile(f, os.O_CREATE|os.O_APPEND|os.O_WRONLY, 0o644); err == nil {
			fmt.Fprintf(w, "--- run policy=%s steps=%d tasks=%d\n", s.out.PolicyName, s.step, len(s.tasks))
			for _, e := range s.events {
				fmt.Fprintf(w, "%d %d %s %d rel=%d\n", e.Step, e.Task, e.Site, e.Aux, e.Released)
			}
			w.Close()
		}
	}
	return s.out
}

// decide folds one value into the decision-log hash (FNV-1a over 8 bytes).
func (s *Sched) decide(v uint64) {
	h := s.decHash
	if h == 0 {
		h = 14695981039346656037
	}
	for i := 0; i < 8; i++ {
		h ^= (v >> (8 * i)) & 0xff
		h *= 1099511628211
	}
	s.decHash = h
}

// Dirty is set when a run left goroutines behind (deadlock, no progress):
// the worker process must not be reused.
var Dirty bool

func (s *Sched) cleanup() {
	if Dirty {
		// parked goroutines still hold their pipes; leave them
		return
	}
	for _, fd := range s.openFds {
		syscall.Close(fd)
	}
}

// Signature hashes the decision sequence (task, site) of an outcome.
func (o Outcome) Signature() string {
	var sb strings.Builder
	for _, e := range o.Events {
		fmt.Fprintf(&sb, "%d:%d:%s:%d;", e.Step, e.Task, e.Site, e.Aux)
	}
	fmt.Fprintf(&sb, "dl=%v np=%v", o.Deadlock, o.NoProgress)
	return fmt.Sprintf("%016x", choice.Hash64(sb.String()))
}

// TaskName resolves logical ids for reports.
func (s *Sched) TaskName(id int) string {
	if id >= 0 && id < len(s.tasks) {
		return s.tasks[id].name
	}
	return fmt.Sprint(id)
}

