package detsched

import (
	"fmt"
	"sync"
	"testing"

	"verif/internal/choice"
)

// three clients around one mutex with yields inside the critical section
func mutexScenario(seed uint64, locked bool) (Outcome, []int) {
	s := New(choice.NewRandom(seed))
	var mu sync.Mutex
	shared := 0
	torn := make([]int, 3)
	for c := 0; c < 3; c++ {
		c := c
		s.Go(fmt.Sprintf("client%d", c), func() {
			for k := 0; k < 3; k++ {
				Yield("before-lock", int64(k))
				if locked {
					mu.Lock()
				}
				Yield("after-lock", int64(k))
				v := shared
				Yield("inside", int64(k))
				shared = v + 1
				if locked {
					mu.Unlock()
				}
			}
			torn[c] = 1
		})
	}
	o := s.Run()
	return o, []int{shared}
}

func TestMutexDeterministic(t *testing.T) {
	for seed := uint64(1); seed <= 12; seed++ {
		o1, r1 := mutexScenario(seed, true)
		o2, r2 := mutexScenario(seed, true)
		if o1.Trouble != "" || o1.Deadlock {
			t.Fatalf("seed %d: %+v", seed, o1)
		}
		if o1.Signature() != o2.Signature() {
			t.Fatalf("seed %d: signatures differ", seed)
		}
		if r1[0] != 9 || r2[0] != 9 {
			t.Fatalf("seed %d: lost update under mutex: %d %d", seed, r1[0], r2[0])
		}
	}
}

func TestSeedsDiffer(t *testing.T) {
	sigs := map[string]bool{}
	for seed := uint64(1); seed <= 12; seed++ {
		o, _ := mutexScenario(seed, true)
		sigs[o.Signature()] = true
	}
	if len(sigs) < 4 {
		t.Fatalf("only %d distinct schedules from 12 seeds", len(sigs))
	}
}

// parent spawns channel-fed workers and waits
func TestWorkersAdopted(t *testing.T) {
	for seed := uint64(1); seed <= 8; seed++ {
		var sigs []string
		for rep := 0; rep < 2; rep++ {
			s := New(choice.NewRandom(seed))
			results := make([]int, 8)
			s.Go("parent", func() {
				jobs := make(chan int, 2)
				var wg sync.WaitGroup
				for w := 0; w < 4; w++ {
					wg.Add(1)
					go func() {
						defer wg.Done()
						for {
							Yield("worker:loop", 0)
							j, ok := <-jobs
							if !ok {
								return
							}
							Yield("worker:job", int64(j))
							results[j] = j * j
						}
					}()
					Yield("spawn", int64(w))
				}
				for j := 0; j < 8; j++ {
					Yield("parent:send", int64(j))
					jobs <- j
				}
				close(jobs)
				Yield("parent:wait", 0)
				wg.Wait()
			})
			o := s.Run()
			if o.Trouble != "" || o.Deadlock || o.NoProgress {
				t.Fatalf("seed %d: %+v", seed, o)
			}
			if o.Adopted != 4 {
				t.Fatalf("seed %d: adopted %d", seed, o.Adopted)
			}
			for j, r := range results {
				if r != j*j {
					t.Fatalf("seed %d: job %d not done", seed, j)
				}
			}
			sigs = append(sigs, o.Signature())
		}
		if sigs[0] != sigs[1] {
			t.Fatalf("seed %d: nondeterministic", seed)
		}
	}
}

func TestDeadlockDetected(t *testing.T) {
	found := 0
	for seed := uint64(1); seed <= 30 && found == 0; seed++ {
		s := New(choice.NewRandom(seed))
		var a, b sync.Mutex
		s.Go("ab", func() {
			Yield("x", 0)
			a.Lock()
			Yield("x", 1)
			b.Lock()
			b.Unlock()
			a.Unlock()
		})
		s.Go("ba", func() {
			Yield("y", 0)
			b.Lock()
			Yield("y", 1)
			a.Lock()
			a.Unlock()
			b.Unlock()
		})
		o := s.Run()
		if o.Deadlock {
			found++
		}
		if Dirty {
			break
		}
	}
	if found == 0 {
		t.Fatalf("lock-order inversion never reported as deadlock")
	}
}

func BenchmarkMutexScenario(b *testing.B) {
	steps := int64(0)
	dumps := 0
	for i := 0; i < b.N; i++ {
		o, _ := mutexScenario(uint64(i+1), true)
		steps += o.Steps
		dumps += o.Dumps
	}
	b.ReportMetric(float64(steps)/float64(b.N), "steps/run")
	b.ReportMetric(float64(dumps)/float64(b.N), "dumps/run")
}

// A library that starts a goroutine of its own without telling anybody (no
// "spawn" site): a queue drained by a lazily started worker that exits when
// idle (the shape of benign change C13-e1). The scheduler has to notice the
// unannounced goroutine before its next decision, or the number of
// candidates depends on how fast the worker reaches its first yield.
func lazyWorkerScenario(seed uint64) Outcome {
	s := New(choice.NewRandom(seed))
	var mu sync.Mutex
	var pending []chan struct{}
	running := false
	var drain func()
	drain = func() {
		for {
			Yield("drain:lock", 0)
			mu.Lock()
			if len(pending) == 0 {
				running = false
				mu.Unlock()
				return
			}
			j := pending[0]
			pending = pending[1:]
			mu.Unlock()
			Yield("drain:job", 0)
			close(j)
		}
	}
	for c := 0; c < 3; c++ {
		s.Go(fmt.Sprintf("client%d", c), func() {
			for k := 0; k < 3; k++ {
				done := make(chan struct{})
				Yield("submit:lock", int64(k))
				mu.Lock()
				pending = append(pending, done)
				if !running {
					running = true
					go drain()
				}
				mu.Unlock()
				Yield("submit:wait", int64(k))
				<-done
			}
		})
	}
	return s.Run()
}

func TestUnannouncedGoroutineDeterministic(t *testing.T) {
	for seed := uint64(1); seed <= 40; seed++ {
		o1 := lazyWorkerScenario(seed)
		if o1.Trouble != "" || o1.Deadlock || o1.NoProgress {
			t.Fatalf("seed %d: %+v", seed, o1)
		}
		for rep := 0; rep < 4; rep++ {
			if o2 := lazyWorkerScenario(seed); o1.Signature() != o2.Signature() {
				t.Fatalf("seed %d: same seed, different schedule", seed)
			}
		}
	}
}
