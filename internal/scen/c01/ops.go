//go:build verif

// Package c01 decides property C01: a mesh value, once obtained, never
// changes, whatever is derived from it, from its derivations or from its
// ancestors, in whatever order, from whichever goroutine, and whether or not
// an export of it fails half way.
package c01

import (
	"fmt"
	"image"
	"image/color"
	"math"
	"reflect"
	"regexp"
	"sort"
	"strings"

	"github.com/EliCDavis/polyform/formats/gltf"
	"github.com/EliCDavis/polyform/formats/obj"
	"github.com/EliCDavis/polyform/formats/ply"
	"github.com/EliCDavis/polyform/formats/splat"
	"github.com/EliCDavis/polyform/formats/stl"
	"github.com/EliCDavis/polyform/math/geometry"
	"github.com/EliCDavis/polyform/math/quaternion"
	"github.com/EliCDavis/polyform/math/trs"
	"github.com/EliCDavis/polyform/modeling"
	"github.com/EliCDavis/polyform/modeling/meshops"
	"github.com/EliCDavis/polyform/modeling/meshops/gausops"
	"github.com/EliCDavis/polyform/modeling/primitives"
	"github.com/EliCDavis/polyform/modeling/repeat"
	"github.com/EliCDavis/vector/vector2"
	"github.com/EliCDavis/vector/vector3"
	"github.com/EliCDavis/vector/vector4"

	"verif/internal/choice"
	"verif/internal/gen"
	"verif/internal/meshsnap"
	"verif/internal/simio"
)

var (
	tMesh     = reflect.TypeOf(modeling.Mesh{})
	tString   = reflect.TypeOf("")
	tInt      = reflect.TypeOf(0)
	tFloat    = reflect.TypeOf(0.0)
	tBool     = reflect.TypeOf(false)
	tV2       = reflect.TypeOf(vector2.Float64{})
	tV3       = reflect.TypeOf(vector3.Float64{})
	tV4       = reflect.TypeOf(vector4.Float64{})
	tTRS      = reflect.TypeOf(trs.TRS{})
	tQuat     = reflect.TypeOf(quaternion.Quaternion{})
	tAABB     = reflect.TypeOf(geometry.AABB{})
	tPlane    = reflect.TypeOf(geometry.Plane{})
	tMaterial = reflect.TypeOf(modeling.Material{})
	tError    = reflect.TypeOf((*error)(nil)).Elem()
	tImage    = reflect.TypeOf((*image.Image)(nil)).Elem()
	tXformer  = reflect.TypeOf((*modeling.Transformer)(nil)).Elem()
)

var attrNames = []string{modeling.PositionAttribute, modeling.NormalAttribute, modeling.TexCoordAttribute, modeling.ColorAttribute,
	"f1", "f2", "f4", modeling.OpacityAttribute, modeling.ScaleAttribute, modeling.FDCAttribute, modeling.RotationAttribute, "missing"}

// transformer zero values; exported fields are filled by type
var transformers = []modeling.Transformer{
	meshops.CenterAttribute3DTransformer{}, meshops.CropAttribute3DTransformer{}, meshops.CustomTransformer{},
	meshops.FilterFloat1Transformer{}, meshops.FilterFloat2Transformer{}, meshops.FilterFloat3Transformer{}, meshops.FilterFloat4Transformer{},
	meshops.FlatNormalsTransformer{}, meshops.FlipTriangleWindingTransformer{}, meshops.LaplacianSmoothTransformer{},
	meshops.NormalizeAttribute3DTransformer{}, meshops.NormalizeAttribute2DTransformer{}, meshops.RemoveNullFaces3DTransformer{},
	meshops.RemovedUnreferencedVerticesTransformer{}, meshops.RotateAttribute3DTransformer{}, meshops.ScaleAttribute3DTransformer{},
	meshops.ScaleAttributeAlongNormalTransformer{}, meshops.ScaleAttribute2DTransformer{}, meshops.SliceByPlaneTransformer{},
	meshops.SmoothNormalsTransformer{}, meshops.SmoothNormalsImplicitWeldTransformer{}, meshops.TranslateAttribute3DTransformer{},
	meshops.UnweldTransformer{}, meshops.VertexColorSpaceTransformer{}, meshops.ColorGradingLutTransformer{},
	gausops.ColorGradingLutTransformer{}, gausops.ScaleTransformer{},
}

// package-level functions whose first parameter is the mesh they work on
// (the function forms behind the transformers, and a few that have no
// transformer); called by reflection like the methods
var meshFuncs = []struct {
	name string
	fn   reflect.Value
}{
	{"meshops.CenterFloat3Attribute", reflect.ValueOf(meshops.CenterFloat3Attribute)},
	{"meshops.CropFloat3Attribute", reflect.ValueOf(meshops.CropFloat3Attribute)},
	{"meshops.FilterFloat1", reflect.ValueOf(meshops.FilterFloat1)},
	{"meshops.FilterFloat3", reflect.ValueOf(meshops.FilterFloat3)},
	{"meshops.FlatNormals", reflect.ValueOf(meshops.FlatNormals)},
	{"meshops.FlipTriangleWinding", reflect.ValueOf(meshops.FlipTriangleWinding)},
	{"meshops.LaplacianSmooth", reflect.ValueOf(meshops.LaplacianSmooth)},
	{"meshops.LaplacianSmoothAlongAxis", reflect.ValueOf(meshops.LaplacianSmoothAlongAxis)},
	{"meshops.NormalizeAttribute3D", reflect.ValueOf(meshops.NormalizeAttribute3D)},
	{"meshops.RemoveNullFaces3D", reflect.ValueOf(meshops.RemoveNullFaces3D)},
	{"meshops.RemovedUnreferencedVertices", reflect.ValueOf(meshops.RemovedUnreferencedVertices)},
	{"meshops.RotateAttribute3D", reflect.ValueOf(meshops.RotateAttribute3D)},
	{"meshops.ScaleAttribute3D", reflect.ValueOf(meshops.ScaleAttribute3D)},
	{"meshops.ScaleAttributeAlongNormal", reflect.ValueOf(meshops.ScaleAttributeAlongNormal)},
	{"meshops.SliceByPlaneWithAttribute", reflect.ValueOf(meshops.SliceByPlaneWithAttribute)},
	{"meshops.SmoothNormals", reflect.ValueOf(meshops.SmoothNormals)},
	{"meshops.SmoothNormalsImplicitWeld", reflect.ValueOf(meshops.SmoothNormalsImplicitWeld)},
	{"meshops.SplitOnUniqueMaterials", reflect.ValueOf(meshops.SplitOnUniqueMaterials)},
	{"meshops.TranslateAttribute3D", reflect.ValueOf(meshops.TranslateAttribute3D)},
	{"meshops.Unweld", reflect.ValueOf(meshops.Unweld)},
	{"meshops.VertexColorSpace", reflect.ValueOf(meshops.VertexColorSpace)},
	{"gausops.RotateAttribute", reflect.ValueOf(gausops.RotateAttribute)},
	{"gausops.Scale", reflect.ValueOf(gausops.Scale)},
}

// argGen builds argument values of a given type from the choice stream.
type argGen struct {
	c choice.Chooser
	// shape of the receiver the operation is generated for
	attrLen int
	names   map[int][]string // width -> attribute names present
	idxLen  int
	topo    modeling.Topology
	// Unsupported collects parameter types the generator could not build.
	unsupported map[string]bool
}

func shapeOf(m modeling.Mesh) (int, map[int][]string, int) {
	return meshsnap.StableAttributeLength(m), map[int][]string{1: m.Float1Attributes(), 2: m.Float2Attributes(), 3: m.Float3Attributes(), 4: m.Float4Attributes()}, m.Indices().Len()
}

func (g *argGen) attr(width int) string {
	present := g.names[width]
	if width == 0 {
		for w := 1; w <= 4; w++ {
			present = append(present, g.names[w]...)
		}
	}
	if len(present) > 0 && g.c.Intn("arg:attr-present", 5) != 0 {
		return present[g.c.Intn("arg:attr", len(present))]
	}
	return attrNames[g.c.Intn("arg:attr-any", len(attrNames))]
}

// length of generated attribute arrays: always the receiver's attribute
// length. Meshes whose attributes differ in length are ill-formed, and what
// the library does with them follows Go map iteration order (AttributeLength
// reports whichever attribute it meets first): runs would not replay.
func (g *argGen) length() int {
	if g.attrLen == 0 {
		return 1 + g.c.Intn("arg:len-new", 5)
	}
	return g.attrLen
}

func (g *argGen) v3() vector3.Float64 { return gen.V3(g.c, "arg:v3") }

func (g *argGen) quat() quaternion.Quaternion {
	return quaternion.FromTheta(float64(g.c.Intn("arg:theta", 8))*0.4, vector3.New(0.3, 1., 0.2).Normalized())
}

func (g *argGen) trs() trs.TRS {
	return trs.New(g.v3(), g.quat(), vector3.New(1+float64(g.c.Intn("arg:scale", 3)), 1., 0.5))
}

func (g *argGen) material() modeling.Material {
	name := fmt.Sprintf("mat%d", g.c.Intn("arg:mat", 4))
	m := modeling.DefaultColorMaterial(color.RGBA{uint8(g.c.Intn("arg:col", 256)), 10, 20, 255})
	m.Name = name
	if choice.Bool(g.c, "arg:tex") {
		// file names as users have them, not necessarily canonical
		u := []string{"tex.png", " textures\\wood\\albedo.png ", "a b.png\n", "./t/../tex.png", "TEX.PNG"}[g.c.Intn("arg:uri", 5)]
		m.ColorTextureURI = &u
		if choice.Bool(g.c, "arg:normaltex") {
			n := "n " + u
			m.NormalTextureURI = &n
		}
	}
	return m
}

// width hint from a method or field name ("Float3", "3D", ...)
func widthHint(name string) int {
	for w, keys := range map[int][]string{1: {"Float1", "1D"}, 2: {"Float2", "2D"}, 3: {"Float3", "3D"}, 4: {"Float4", "4D"}} {
		for _, k := range keys {
			if strings.Contains(name, k) {
				return w
			}
		}
	}
	return 0
}

func (g *argGen) value(t reflect.Type, hint string, pool []modeling.Mesh) (reflect.Value, bool) {
	w := widthHint(hint)
	switch {
	case t == tString:
		return reflect.ValueOf(g.attr(w)), true
	case t == tInt:
		switch {
		case strings.Contains(hint, "PoolSize"):
			return reflect.ValueOf(1 + g.c.Intn("arg:pool", 5)), true
		case strings.Contains(hint, "Weld"):
			return reflect.ValueOf(g.c.Intn("arg:decimals", 5)), true
		case strings.Contains(hint, "Tri"), strings.Contains(hint, "LineStrip"):
			return reflect.ValueOf(g.c.Intn("arg:index", g.idxLen/3+2)), true
		case strings.Contains(hint, "Iterations"):
			return reflect.ValueOf(g.c.Intn("arg:iter", 3)), true
		}
		return reflect.ValueOf(1 + g.c.Intn("arg:int", 4)), true
	case t == tFloat:
		return reflect.ValueOf(gen.Float(g.c, "arg:float")), true
	case t == tBool:
		return reflect.ValueOf(choice.Bool(g.c, "arg:bool")), true
	case t == tMesh:
		if len(pool) == 0 {
			return reflect.Value{}, false
		}
		cands := pool
		if strings.HasPrefix(hint, "Copy") {
			// copying an attribute from a mesh of another size would make
			// the result ill-formed
			cands = nil
			for _, p := range pool {
				if meshsnap.StableAttributeLength(p) == g.attrLen {
					cands = append(cands, p)
				}
			}
			if len(cands) == 0 {
				return reflect.Value{}, false
			}
		}
		return reflect.ValueOf(cands[g.c.Intn("arg:mesh", len(cands))]), true
	case t == tV2:
		return reflect.ValueOf(gen.V2(g.c, "arg:v2")), true
	case t == tV3:
		return reflect.ValueOf(g.v3()), true
	case t == tV4:
		return reflect.ValueOf(gen.V4(g.c, "arg:v4")), true
	case t == tTRS:
		return reflect.ValueOf(g.trs()), true
	case t == tQuat:
		return reflect.ValueOf(g.quat()), true
	case t == tAABB:
		return reflect.ValueOf(geometry.NewAABB(g.v3(), vector3.New(4., 6., 8.))), true
	case t == tPlane:
		return reflect.ValueOf(geometry.NewPlaneFromPoints(g.v3(), g.v3().Add(vector3.Right[float64]()), g.v3().Add(vector3.Up[float64]()))), true
	case t == tMaterial:
		return reflect.ValueOf(g.material()), true
	case t == tImage:
		img := image.NewRGBA(image.Rect(0, 0, 4, 4))
		return reflect.ValueOf(img).Convert(tImage), true
	case t.Kind() == reflect.Slice && t.Elem() == tFloat:
		return reflect.ValueOf(gen.F1s(g.c, "arg:f1s", g.length(), false)), true
	case t.Kind() == reflect.Slice && t.Elem() == tV2:
		return reflect.ValueOf(gen.F2s(g.c, "arg:f2s", g.length())), true
	case t.Kind() == reflect.Slice && t.Elem() == tV3:
		return reflect.ValueOf(gen.F3s(g.c, "arg:f3s", g.length(), false)), true
	case t.Kind() == reflect.Slice && t.Elem() == tV4:
		return reflect.ValueOf(gen.F4s(g.c, "arg:f4s", g.length(), false)), true
	case t.Kind() == reflect.Slice && t.Elem() == tInt:
		n := g.idxLen
		if g.c.Intn("arg:idx-other", 4) == 0 {
			n = 3 * g.c.Intn("arg:idx-n", 4)
		}
		idx := make([]int, n)
		for i := range idx {
			if g.attrLen > 0 {
				idx[i] = g.c.Intn("arg:idx", g.attrLen)
			}
		}
		return reflect.ValueOf(idx), true
	case t.Kind() == reflect.Slice && t.Elem() == tTRS:
		n := 1 + g.c.Intn("arg:trs-n", 3)
		out := make([]trs.TRS, n)
		for i := range out {
			out[i] = g.trs()
		}
		return reflect.ValueOf(out), true
	case t.Kind() == reflect.Slice && t.Elem() == reflect.TypeOf(modeling.MeshMaterial{}):
		n := g.c.Intn("arg:mats", 3)
		out := make([]modeling.MeshMaterial, n)
		for i := range out {
			m := g.material()
			out[i] = modeling.MeshMaterial{PrimitiveCount: 1 + g.c.Intn("arg:matprims", 3), Material: &m}
		}
		return reflect.ValueOf(out), true
	case t.Kind() == reflect.Slice && t.Elem() == tXformer:
		n := 1 + g.c.Intn("arg:xformers", 2)
		out := make([]modeling.Transformer, n)
		for i := range out {
			out[i] = g.transformer(pool)
		}
		return reflect.ValueOf(out), true
	case t.Kind() == reflect.Map && t.Key() == tString && t.Elem().Kind() == reflect.Slice:
		m := reflect.MakeMap(t)
		for i := g.c.Intn("arg:map-n", 3); i > 0; i-- {
			v, ok := g.value(t.Elem(), hint, pool)
			if !ok {
				return reflect.Value{}, false
			}
			m.SetMapIndex(reflect.ValueOf(g.attr(w)), v)
		}
		return m, true
	case t.Kind() == reflect.Func:
		return g.function(t), true
	case t.PkgPath() != "" && (t.Kind() == reflect.Int || t.Kind() == reflect.Int64 || t.Kind() == reflect.Uint8):
		// named enumerations (VertexColorSpaceTransformation, plane sides ...)
		return reflect.ValueOf(g.c.Intn("arg:enum", 4)).Convert(t), true
	case t.Kind() == reflect.Pointer && t.Elem().Kind() == reflect.Struct && t.Elem().PkgPath() != "":
		// pointer to a parameter struct: fill its exported fields
		v := reflect.New(t.Elem())
		for i := 0; i < t.Elem().NumField(); i++ {
			f := t.Elem().Field(i)
			if !f.IsExported() {
				continue
			}
			if fv, ok := g.value(f.Type, t.Elem().Name()+"."+f.Name, pool); ok {
				v.Elem().Field(i).Set(fv)
			}
		}
		return v, true
	}
	g.unsupported[t.String()] = true
	return reflect.Value{}, false
}

// function builds a pure callback: results are a function of the arguments.
func (g *argGen) function(t reflect.Type) reflect.Value {
	k := float64(1 + g.c.Intn("arg:fn-k", 3))
	return reflect.MakeFunc(t, func(args []reflect.Value) []reflect.Value {
		out := make([]reflect.Value, t.NumOut())
		for i := 0; i < t.NumOut(); i++ {
			ot := t.Out(i)
			var src reflect.Value
			for _, a := range args {
				if a.Type() == ot {
					src = a
				}
			}
			switch {
			case ot == tFloat && src.IsValid():
				out[i] = reflect.ValueOf(src.Float()*k + 1)
			case ot == tV2 && src.IsValid():
				out[i] = reflect.ValueOf(src.Interface().(vector2.Float64).Scale(k))
			case ot == tV3 && src.IsValid():
				out[i] = reflect.ValueOf(src.Interface().(vector3.Float64).Scale(k).Add(vector3.One[float64]()))
			case ot == tV4 && src.IsValid():
				out[i] = reflect.ValueOf(src.Interface().(vector4.Float64).Scale(k))
			case ot == tBool:
				// decided by the value itself, robust against rounding noise
				x := 0.0
				switch v := args[len(args)-1].Interface().(type) {
				case float64:
					x = v
				case vector2.Float64:
					x = v.X() + v.Y()
				case vector3.Float64:
					x = v.X() + v.Y() + v.Z()
				case vector4.Float64:
					x = v.X() + v.W()
				}
				out[i] = reflect.ValueOf(int(math.Floor(x*1.5+0.25))%3 != 0)
			case ot == tMesh && src.IsValid():
				out[i] = reflect.ValueOf(src.Interface().(modeling.Mesh).ToPointCloud())
			default:
				out[i] = reflect.Zero(ot)
			}
		}
		return out
	})
}

func (g *argGen) transformer(pool []modeling.Mesh) modeling.Transformer {
	proto := transformers[g.c.Intn("arg:xformer", len(transformers))]
	pt := reflect.TypeOf(proto)
	v := reflect.New(pt).Elem()
	for i := 0; i < pt.NumField(); i++ {
		f := pt.Field(i)
		if !f.IsExported() {
			continue
		}
		if fv, ok := g.value(f.Type, pt.Name()+"."+f.Name, pool); ok {
			v.Field(i).Set(fv)
		}
	}
	return v.Interface().(modeling.Transformer)
}

// op is one prepared operation: arguments are already drawn (each op runs once).
type op struct {
	Name string
	// Run applies the operation to recv; returns a derived mesh if the
	// operation yields one.
	Run func(recv modeling.Mesh) (derived *modeling.Mesh, note string)
}

var meshMethods = func() []reflect.Method {
	var ms []reflect.Method
	for i := 0; i < tMesh.NumMethod(); i++ {
		ms = append(ms, tMesh.Method(i))
	}
	return ms
}()

// method weights: derivations that share state get more attention
func methodWeight(name string) int {
	switch {
	case name == "Append":
		return 30
	case strings.HasPrefix(name, "Set"), strings.HasPrefix(name, "Copy"):
		return 6
	case strings.HasPrefix(name, "Modify"), name == "Translate", name == "Scale", name == "Rotate", name == "ApplyTRS", name == "Transform", name == "WeldByFloat3Attribute":
		return 5
	case strings.HasPrefix(name, "Scan"):
		return 2
	}
	return 1
}

var methodWeights = func() []int {
	var w []int
	for _, m := range meshMethods {
		w = append(w, methodWeight(m.Name))
	}
	return w
}()

var digits = regexp.MustCompile(`[0-9]+`)

func safely(f func()) (panicked string) {
	defer func() {
		if r := recover(); r != nil {
			// normalised: on ill-formed meshes the library's failure point
			// can follow Go map order; the history must not depend on it
			panicked = digits.ReplaceAllString(fmt.Sprint(r), "N")
			if len(panicked) > 60 {
				panicked = panicked[:60]
			}
		}
	}()
	f()
	return ""
}

// genOp prepares one operation for a receiver of the given shape.
func genOp(c choice.Chooser, shape modeling.Mesh, pool []modeling.Mesh, unsupported map[string]bool, counts map[string]int) op {
	g := &argGen{c: c, unsupported: unsupported, topo: shape.Topology()}
	g.attrLen, g.names, g.idxLen = shapeOf(shape)
	switch choice.Pick(c, "op:family", []int{16, 4, 2, 5, 9, 4, 2}) {
	case 5: // a package-level function taking the mesh first
		mf := meshFuncs[c.Intn("op:func", len(meshFuncs))]
		ft := mf.fn.Type()
		var args []reflect.Value
		for i := 1; i < ft.NumIn(); i++ {
			v, ok := g.value(ft.In(i), mf.name, pool)
			if !ok {
				counts["uncovered:"+mf.name]++
				return op{Name: mf.name + "(uncovered)", Run: func(modeling.Mesh) (*modeling.Mesh, string) { return nil, "uncovered" }}
			}
			args = append(args, v)
		}
		pickOut := c.Intn("op:func-out", 4)
		return op{Name: mf.name, Run: func(recv modeling.Mesh) (*modeling.Mesh, string) {
			var outs []reflect.Value
			if p := safely(func() { outs = mf.fn.Call(append([]reflect.Value{reflect.ValueOf(recv)}, args...)) }); p != "" {
				return nil, "panic: " + p
			}
			var ms []modeling.Mesh
			for _, o := range outs {
				switch {
				case o.Type() == tMesh:
					ms = append(ms, o.Interface().(modeling.Mesh))
				case o.Kind() == reflect.Slice && o.Type().Elem() == tMesh:
					ms = append(ms, o.Interface().([]modeling.Mesh)...)
				}
			}
			if len(ms) == 0 {
				return nil, ""
			}
			r := ms[pickOut%len(ms)]
			return &r, ""
		}}
	case 6: // a new primitive (its tables and caches are shared with earlier ones)
		// every choice is drawn here; the mesh itself is built when the
		// operation runs (in the concurrent scenario: inside a task, so that
		// two tasks construct at the same time)
		var build func() modeling.Mesh
		name := ""
		sides := 3 + c.Intn("prim:sides", 3)
		h := float64(1 + c.Intn("prim:height", 3))
		rad := []float64{0.5, 1}[c.Intn("prim:radius", 2)]
		switch c.Intn("prim:kind", 10) {
		case 8, 9:
			// the constructors with implied indices, over a wide range of
			// sizes (1..4095): whatever they share or grow lazily behind
			// the scenes (seeded change C01-c3: one package-level 0..n-1
			// table) is then grown again and again while other values that
			// lean on it are alive - in a fresh worker process every new
			// record size is a growth
			return impliedCtorOp(c, shape)
		case 6, 7:
			// valid but unusual: no faces at all, or vertices that no face
			// uses (construction points) - of the receiver's topology, so
			// that Append and friends accept it
			m, n := degenerateMesh(c, shape.Topology())
			build, name = func() modeling.Mesh { return m }, n
		case 0:
			build, name = func() modeling.Mesh { return primitives.Cone{Sides: sides, Height: h, Radius: rad}.ToMesh() }, "primitives.Cone"
		case 1:
			build, name = func() modeling.Mesh { return primitives.Cylinder{Sides: sides, Height: h, Radius: rad}.ToMesh() }, "primitives.Cylinder"
		case 2:
			build, name = func() modeling.Mesh { return primitives.Circle{Sides: sides, Radius: rad}.ToMesh() }, "primitives.Circle"
		case 3:
			rows := 2 + c.Intn("prim:rows", 2)
			build, name = func() modeling.Mesh { return primitives.UVSphere(rad, rows, sides) }, "primitives.UVSphere"
		case 4:
			build, name = func() modeling.Mesh {
				return primitives.Cube{Height: h, Width: rad, Depth: 1, UVs: primitives.DefaultCubeUVs()}.Welded()
			}, "primitives.Cube.Welded"
		default:
			build, name = func() modeling.Mesh { return primitives.UnitCube() }, "primitives.UnitCube"
		}
		return op{Name: name, Run: func(modeling.Mesh) (*modeling.Mesh, string) {
			var m modeling.Mesh
			if p := safely(func() { m = build() }); p != "" {
				return nil, "panic: " + p
			}
			return &m, ""
		}}
	case 4: // Append of a pool member with the same topology (the common derivation)
		var same []modeling.Mesh
		for _, p := range pool {
			if p.Topology() == shape.Topology() {
				same = append(same, p)
			}
		}
		if len(same) == 0 {
			same = pool
		}
		other := same[c.Intn("op:append-other", len(same))]
		return op{Name: "Mesh.Append", Run: func(recv modeling.Mesh) (*modeling.Mesh, string) {
			var r modeling.Mesh
			if p := safely(func() { r = recv.Append(other) }); p != "" {
				return nil, "panic: " + p
			}
			return &r, ""
		}}
	case 0: // a Mesh method, by reflection
		m := meshMethods[choice.Pick(c, "op:method", methodWeights)]
		var args []reflect.Value
		for i := 1; i < m.Type.NumIn(); i++ {
			pt := m.Type.In(i)
			if m.Type.IsVariadic() && i == m.Type.NumIn()-1 {
				v, ok := g.value(pt, m.Name, pool)
				if !ok {
					return op{Name: m.Name + "(uncovered)", Run: func(modeling.Mesh) (*modeling.Mesh, string) { return nil, "uncovered" }}
				}
				for k := 0; k < v.Len(); k++ {
					args = append(args, v.Index(k))
				}
				continue
			}
			v, ok := g.value(pt, m.Name, pool)
			if !ok {
				counts["uncovered:"+m.Name]++
				return op{Name: m.Name + "(uncovered)", Run: func(modeling.Mesh) (*modeling.Mesh, string) { return nil, "uncovered" }}
			}
			args = append(args, v)
		}
		name := "Mesh." + m.Name
		return op{Name: name, Run: func(recv modeling.Mesh) (*modeling.Mesh, string) {
			var outs []reflect.Value
			p := safely(func() { outs = reflect.ValueOf(recv).MethodByName(m.Name).Call(args) })
			if p != "" {
				return nil, "panic: " + p
			}
			for _, o := range outs {
				if o.Type() == tMesh {
					r := o.Interface().(modeling.Mesh)
					return &r, ""
				}
			}
			// touch observers so that lazily computed results are used
			for _, o := range outs {
				_ = fmt.Sprint(o.Kind())
			}
			return nil, ""
		}}
	case 1: // a meshops / gausops transformer
		t := g.transformer(pool)
		name := "Transform(" + reflect.TypeOf(t).Name() + ")"
		return op{Name: name, Run: func(recv modeling.Mesh) (*modeling.Mesh, string) {
			var r modeling.Mesh
			var err error
			if p := safely(func() { r, err = t.Transform(recv) }); p != "" {
				return nil, "panic: " + p
			}
			if err != nil {
				return nil, "error: " + err.Error()
			}
			return &r, ""
		}}
	case 2: // repeat
		v, _ := g.value(reflect.TypeOf([]trs.TRS{}), "repeat", pool)
		ts := v.Interface().([]trs.TRS)
		return op{Name: "repeat.Mesh", Run: func(recv modeling.Mesh) (*modeling.Mesh, string) {
			var r modeling.Mesh
			if p := safely(func() { r = repeat.Mesh(recv, ts) }); p != "" {
				return nil, "panic: " + p
			}
			return &r, ""
		}}
	default: // export through a writer onto a disk that may fail
		kind := c.Intn("op:writer", 7)
		crash := -1
		if c.Intn("io:disk-fails", 3) != 0 {
			crash = c.Intn("io:crash-at", 600)
		}
		short := choice.Bool(c, "io:short-write")
		names := []string{"ply.Write(ascii)", "ply.Write(binary-le)", "ply.Write(binary-be)", "obj.WriteMesh", "stl.WriteMesh", "gltf.WriteBinary", "splat.Write"}
		return op{Name: names[kind], Run: func(recv modeling.Mesh) (*modeling.Mesh, string) {
			d := simio.NewDisk(crash, short)
			var err error
			p := safely(func() {
				switch kind {
				case 0:
					err = ply.Write(d, recv, ply.ASCII)
				case 1:
					err = ply.Write(d, recv, ply.BinaryLittleEndian)
				case 2:
					err = ply.Write(d, recv, ply.BinaryBigEndian)
				case 3:
					err = obj.WriteMesh(recv, "", d)
				case 4:
					err = stl.WriteMesh(d, recv)
				case 5:
					err = gltf.WriteBinary(gltf.PolyformScene{Models: []gltf.PolyformModel{{Name: "m", Mesh: &recv}}}, d)
				default:
					err = splat.Write(d, recv)
				}
			})
			// (no byte counts in the note: a few operations compute values
			// in Go map order, which can change the length of ASCII output)
			note := "written"
			if d.Crashed {
				note += ", disk failed" // counted by the caller (closures run inside tasks)
			}
			if p != "" {
				note += ", panic: " + p
			} else if err != nil {
				note += ", error"
			}
			return nil, note
		}}
	}
}

// impliedCtorOp: NewPointCloud / NewLineStripMesh with 1..4095 vertices.
func impliedCtorOp(c choice.Chooser, shape modeling.Mesh) op {
	e := c.Intn("prim:size-exp", 12)
	n := 1<<e + c.Intn("prim:size-rest", 1<<e)
	strip := shape.Topology() == modeling.LineStripTopology || (shape.Topology() != modeling.PointTopology && choice.Bool(c, "prim:strip"))
	if strip && n < 2 {
		n = 2
	}
	name := "modeling.NewPointCloud"
	if strip {
		name = "modeling.NewLineStripMesh"
	}
	return op{Name: name, Run: func(modeling.Mesh) (*modeling.Mesh, string) {
		pos := make([]vector3.Float64, n)
		for i := range pos {
			pos[i] = vector3.New(float64(i), float64(i%7), 0.5)
		}
		var m modeling.Mesh
		if p := safely(func() {
			if strip {
				m = modeling.NewLineStripMesh(map[string][]vector3.Float64{modeling.PositionAttribute: pos}, nil, nil, nil)
			} else {
				m = modeling.NewPointCloud(nil, map[string][]vector3.Float64{modeling.PositionAttribute: pos}, nil, nil, nil)
			}
		}); p != "" {
			return nil, "panic: " + p
		}
		return &m, ""
	}}
}

// degenerateMesh: the smallest meshes the constructors accept - an empty mesh,
// loose vertices without a single index, one primitive. Counts and capacities
// of zero are where amortised/pooled storage schemes tend to go wrong.
func degenerateMesh(c choice.Chooser, topo modeling.Topology) (modeling.Mesh, string) {
	switch c.Intn("degen:kind", 3) {
	case 0:
		return modeling.EmptyMesh(topo), "EmptyMesh"
	case 1:
		n := 1 + c.Intn("degen:verts", 4)
		m := modeling.NewMesh(topo, nil).SetFloat3Attribute(modeling.PositionAttribute, gen.F3s(c, "gen:v3", n, false))
		if choice.Bool(c, "degen:normals") {
			m = m.SetFloat3Attribute(modeling.NormalAttribute, gen.F3s(c, "gen:v3", n, false))
		}
		return m, "loose-vertices"
	default:
		n := map[modeling.Topology]int{modeling.TriangleTopology: 3, modeling.PointTopology: 1, modeling.LineStripTopology: 2}[topo]
		if n == 0 {
			n = 4
		}
		idx := make([]int, n)
		for i := range idx {
			idx[i] = i
		}
		return modeling.NewMesh(topo, idx).SetFloat3Attribute(modeling.PositionAttribute, gen.F3s(c, "gen:v3", n, false)), "one-primitive"
	}
}

// baseMesh draws a starting mesh. Every other triangle mesh carries a
// material: Append concatenates material lists too, and a list is one more
// slice with spare capacity that two results can come to share (seeded change
// C01-a2 needs three appends of material-bearing meshes in a row).
func baseMesh(c choice.Chooser) (modeling.Mesh, string) {
	m, l := baseMeshBare(c)
	if m.Topology() == modeling.TriangleTopology && len(m.Materials()) == 0 && choice.Bool(c, "base:give-material") {
		mat := modeling.DefaultMaterial()
		if choice.Bool(c, "base:named-material") {
			mat.Name = "second"
		}
		m, l = m.SetMaterial(mat), l+"+material"
	}
	return m, l
}

func baseMeshBare(c choice.Chooser) (modeling.Mesh, string) {
	switch c.Intn("base:kind", 9) {
	case 8:
		return degenerateMesh(c, []modeling.Topology{modeling.TriangleTopology, modeling.TriangleTopology, modeling.PointTopology, modeling.LineStripTopology}[c.Intn("base:degen-topo", 4)])
	case 0:
		return primitives.UnitCube(), "UnitCube"
	case 1:
		return primitives.UVSphere(1, 2+c.Intn("base:rows", 2), 3), "UVSphere"
	case 2:
		switch c.Intn("base:prim", 5) {
		case 0:
			return primitives.Quad{Width: 1, Depth: 2, UVs: primitives.DefaultCubeUVs().Top}.ToMesh(), "Quad"
		case 1:
			return primitives.Cylinder{Sides: 3 + c.Intn("base:sides", 3), Height: 1, Radius: 0.5}.ToMesh(), "Cylinder"
		case 2:
			return primitives.Cone{Sides: 3 + c.Intn("base:sides", 3), Height: 1, Radius: 0.5}.ToMesh(), "Cone"
		case 3:
			return primitives.Circle{Sides: 3 + c.Intn("base:sides", 4), Radius: 1}.ToMesh(), "Circle"
		default:
			return primitives.Cube{Height: 1, Width: 2, Depth: 3, UVs: primitives.DefaultCubeUVs()}.UnweldedQuads(), "Cube.UnweldedQuads"
		}
	case 3:
		s := gen.MeshSpec{Topo: modeling.PointTopology, MaxVerts: 8, V1: []string{"f1", modeling.OpacityAttribute},
			V3: []string{modeling.PositionAttribute, modeling.ScaleAttribute, modeling.FDCAttribute}, V4: []string{modeling.RotationAttribute, "f4"}}
		return gen.Mesh(c, s), "splat-cloud"
	case 4:
		s := gen.MeshSpec{Topo: modeling.LineStripTopology, MaxVerts: 6, V3: []string{modeling.PositionAttribute}}
		return gen.Mesh(c, s), "line-strip"
	default:
		s := gen.MeshSpec{Topo: modeling.TriangleTopology, MaxVerts: 9, MaxPrims: 5, V3: []string{modeling.PositionAttribute}}
		s.V3 = append(s.V3, gen.Subset(c, "base:v3", []string{modeling.NormalAttribute, modeling.ColorAttribute})...)
		s.V2 = gen.Subset(c, "base:v2", []string{modeling.TexCoordAttribute, "f2"})
		s.V1 = gen.Subset(c, "base:v1", []string{"f1"})
		s.V4 = gen.Subset(c, "base:v4", []string{"f4"})
		m := gen.Mesh(c, s)
		if choice.Bool(c, "base:material") {
			m = m.SetMaterial(modeling.DefaultMaterial())
		}
		return m, "tri-mesh"
	}
}

func sortedKeys(m map[string]bool) []string {
	var out []string
	for k := range m {
		out = append(out, k)
	}
	sort.Strings(out)
	return out
}
