//go:build verif

package c01

import (
	"fmt"
	"strings"

	"github.com/EliCDavis/polyform/modeling"
	"github.com/EliCDavis/polyform/modeling/primitives"

	"verif/internal/choice"
	"verif/internal/detsched"
	"verif/internal/gen"
	"verif/internal/meshsnap"
	"verif/internal/sim"
)

type slot struct {
	mesh     modeling.Mesh
	snap     *meshsnap.Snap
	label    string
	children int
	appended bool // result of Append: its slices may have spare capacity
}

// ------------------------------------------------------------ sequential mode

type Sequential struct{}

func (Sequential) Prop() string    { return "C01" }
func (Sequential) Name() string    { return "branching-histories" }
func (Sequential) Isolated() bool  { return false }
func (Sequential) NeedsRace() bool { return false }

const maxPool = 8

func pickSlot(c choice.Chooser, pool []*slot) int {
	// prefer bases that already have children and results of Append
	w := make([]int, len(pool))
	for i, s := range pool {
		w[i] = 1 + 3*minInt(s.children, 3)
		if s.appended {
			w[i] += 4
		}
	}
	return choice.Pick(c, "op:recv", w)
}

func minInt(a, b int) int {
	if a < b {
		return a
	}
	return b
}

func meshes(pool []*slot) []modeling.Mesh {
	out := make([]modeling.Mesh, len(pool))
	for i, s := range pool {
		out[i] = s.mesh
	}
	return out
}

func (Sequential) Run(c choice.Chooser, opt sim.Options) (res sim.Result) {
	res = sim.Result{}
	gen.Wild = true
	defer func() { gen.Wild = false }()
	var hist []string
	unsupported := map[string]bool{}
	counts := map[string]int{}
	violate := func(class, msg string) sim.Result {
		res.Violation = &sim.Violation{Class: class, Msg: msg, Detail: map[string]any{"history": hist}}
		res.Sig = fmt.Sprintf("%016x", choice.Hash64(strings.Join(hist, ";")))
		return res
	}
	cubeBefore := meshsnap.Take(primitives.UnitCube())
	var pool []*slot
	add := func(m modeling.Mesh, label string, appended bool) int {
		s := &slot{mesh: m, snap: meshsnap.Take(m), label: label, appended: appended}
		if len(pool) < maxPool {
			pool = append(pool, s)
			return len(pool) - 1
		}
		// replace a leaf (fewest children) so that shared bases stay alive
		victim := 0
		for i, p := range pool {
			if p.children < pool[victim].children {
				victim = i
			}
		}
		i := victim
		if c.Intn("pool:evict-random", 4) == 0 {
			i = c.Intn("pool:evict", len(pool))
		}
		pool[i] = s
		return i
	}
	nBase := 1 + c.Intn("bases", 3)
	for i := 0; i < nBase; i++ {
		m, l := baseMesh(c)
		k := add(m, l, false)
		hist = append(hist, fmt.Sprintf("m%d := %s [%s]", k, l, pool[k].snap.Describe()))
	}
	// every live value is re-read after every operation
	verify := func(after string) *sim.Result {
		for i, s := range pool {
			res.Evals++
			var now *meshsnap.Snap
			if p := safely(func() { now = meshsnap.Take(s.mesh) }); p != "" {
				r := violate("mesh-became-unreadable", fmt.Sprintf("after %s: reading m%d (%s) panics: %s", after, i, s.label, p))
				return &r
			}
			if d := meshsnap.Diff(s.snap, now); d != "" {
				r := violate("mesh-changed/"+opFamily(after), fmt.Sprintf("after %s: m%d (%s), obtained earlier, changed: %s", after, i, s.label, d))
				return &r
			}
		}
		return nil
	}
	branching, rereads := 0, 0
	cellSeen := map[string]bool{}
	maxOps := 36
	if opt.Tier == "thorough" {
		maxOps = 90 // deeper bounds
	}
	nOps := 4 + c.Intn("ops", maxOps)
	for k := 0; k < nOps; k++ {
		res.Steps++
		ri := pickSlot(c, pool)
		recv := pool[ri]
		o := genOp(c, recv.mesh, meshes(pool), unsupported, counts)
		derived, note := o.Run(recv.mesh)
		res.Count("op:"+family(o.Name), 1)
		// which operations actually took effect (not rejected on a
		// precondition) at least once: reported as coverage cells
		if !strings.HasPrefix(note, "panic") && !strings.HasPrefix(note, "error") && note != "uncovered" {
			cell := "ok:" + o.Name
			if !cellSeen[cell] {
				cellSeen[cell] = true
				res.Cells = append(res.Cells, cell)
			}
		}
		if strings.Contains(note, "disk failed") {
			res.Count("fault:disk-write-failed", 1)
		}
		if strings.HasPrefix(note, "panic") || strings.HasPrefix(note, "error") {
			res.Count("op:rejected-precondition", 1)
		}
		line := fmt.Sprintf("%s on m%d", o.Name, ri)
		if derived != nil && !meshsnap.Take(*derived).AttrLenStable {
			// ill-formed result (attributes of different lengths): not kept,
			// the library's behaviour on it is not deterministic
			res.Count("discard:ill-formed-result", 1)
			derived = nil
			note = "ill-formed result discarded"
		}
		if derived != nil {
			if recv.children >= 1 {
				branching++
			}
			recv.children++
			ni := add(*derived, o.Name+" of "+recv.label, o.Name == "Mesh.Append")
			line = fmt.Sprintf("m%d := %s [%s]", ni, line, pool[ni].snap.Describe())
		} else if note != "" && !strings.HasPrefix(note, "written") {
			line += " (" + note + ")"
		}
		hist = append(hist, line)
		if r := verify(line); r != nil {
			return *r
		}
		if branching > 0 {
			rereads++
		}
	}
	// package-level tables behind the primitives: a cube built now must be
	// the cube built before the history ran
	if d := meshsnap.Diff(cubeBefore, meshsnap.Take(primitives.UnitCube())); d != "" {
		return violate("primitive-table-changed", "primitives.UnitCube() yields a different mesh after the history than before it: "+d)
	}
	for k, v := range counts {
		res.Count(k, v)
	}
	for _, u := range sortedKeys(unsupported) {
		res.Count("uncovered-type:"+u, 1)
	}
	res.Sig = fmt.Sprintf("%016x", choice.Hash64(strings.Join(hist, ";")))
	res.LogHash = res.Sig
	res.Nontrivial = branching >= 1 && rereads >= 1
	if branching >= 1 {
		res.Count("probe:branching-derivations", 1)
	}
	if opt.WantSample {
		res.Sample = map[string]any{"history": hist}
	}
	return res
}

func family(name string) string {
	switch {
	case strings.HasPrefix(name, "Mesh."):
		n := strings.TrimPrefix(name, "Mesh.")
		for _, p := range []string{"Append", "Set", "Copy", "Modify", "Scan", "Transform", "Weld"} {
			if strings.HasPrefix(n, p) {
				return "mesh-" + strings.ToLower(p)
			}
		}
		return "mesh-other"
	case strings.HasPrefix(name, "Transform("):
		return "meshops"
	case strings.HasPrefix(name, "repeat"):
		return "repeat"
	case strings.HasPrefix(name, "meshops."), strings.HasPrefix(name, "gausops."):
		return "meshops-func"
	case strings.HasPrefix(name, "primitives."):
		return "primitive"
	case strings.HasPrefix(name, "modeling."):
		return "constructor"
	}
	return "writer"
}

// opFamily extracts the operation name from a history line for the class.
func opFamily(line string) string {
	for _, tok := range strings.Fields(line) {
		if strings.HasPrefix(tok, "Mesh.") || strings.HasPrefix(tok, "Transform(") || strings.HasPrefix(tok, "repeat.") || strings.Contains(tok, ".Write") || strings.HasPrefix(tok, "meshops.") || strings.HasPrefix(tok, "gausops.") || strings.HasPrefix(tok, "primitives.") || strings.HasPrefix(tok, "modeling.") {
			return tok
		}
	}
	return "?"
}

// ------------------------------------------------------------ concurrent mode

// Concurrent: several tasks derive from shared base meshes at the same time.
type Concurrent struct{}

func (Concurrent) Prop() string    { return "C01" }
func (Concurrent) Name() string    { return "shared-across-goroutines" }
func (Concurrent) Isolated() bool  { return true }
func (Concurrent) NeedsRace() bool { return true }

func (Concurrent) Run(c choice.Chooser, opt sim.Options) (res sim.Result) {
	res = sim.Result{Evals: 1}
	gen.Wild = true
	defer func() { gen.Wild = false }()
	unsupported := map[string]bool{}
	counts := map[string]int{}
	var hist []string
	// the shared pool: bases and a few derivations (so that spare capacity
	// and shared backing arrays exist), built and snapshotted up front
	var pool []*slot
	nBase := 1 + c.Intn("bases", 2)
	for i := 0; i < nBase; i++ {
		m, l := baseMesh(c)
		pool = append(pool, &slot{mesh: m, snap: meshsnap.Take(m), label: l})
		hist = append(hist, fmt.Sprintf("m%d := %s", i, l))
	}
	for k := c.Intn("prederive", 4); k > 0; k-- {
		ri := c.Intn("pre:recv", len(pool))
		o := genOp(c, pool[ri].mesh, meshes(pool), unsupported, counts)
		if d, _ := o.Run(pool[ri].mesh); d != nil && len(pool) < maxPool && meshsnap.Take(*d).AttrLenStable {
			pool = append(pool, &slot{mesh: *d, snap: meshsnap.Take(*d), label: o.Name})
			hist = append(hist, fmt.Sprintf("m%d := %s on m%d", len(pool)-1, o.Name, ri))
		}
	}
	shared := meshes(pool)

	// plans are drawn up front: the chooser is not touched by tasks
	type step struct {
		o      op
		recv   int // >=0 shared pool, <0 own result -(k+1)
		shaped int
	}
	tasks := 2 + c.Intn("tasks", 2)
	plans := make([][]step, tasks)
	// one run in six: every task starts by constructing a point cloud or
	// line strip of a drawn size (1..4095) - concurrent construction is
	// where lazily grown package-level state is grown under contention
	storm := c.Intn("plan:constructor-storm", 6) == 0
	if storm {
		res.Count("probe:concurrent-construction", 1)
	}
	for t := range plans {
		n := 2 + c.Intn("plan:len", 4)
		own := 0
		if storm {
			plans[t] = append(plans[t], step{recv: 0, o: impliedCtorOp(c, shared[0])})
			own++
		}
		for k := 0; k < n; k++ {
			st := step{recv: c.Intn("plan:recv", len(shared))}
			if own > 0 && c.Intn("plan:own", 3) == 0 {
				st.recv = -(1 + c.Intn("plan:ownidx", own))
			}
			shape := shared[0]
			if st.recv >= 0 {
				shape = shared[st.recv]
			}
			st.o = genOp(c, shape, shared, unsupported, counts)
			plans[t] = append(plans[t], st)
			own++ // optimistic: the op may not yield a mesh
		}
	}
	type produced struct {
		mesh modeling.Mesh
		snap *meshsnap.Snap
		line string
	}
	results := make([][]produced, tasks)
	s := detsched.New(c)
	for t := 0; t < tasks; t++ {
		t := t
		s.Go(fmt.Sprintf("deriver%d", t), func() {
			var mine []modeling.Mesh
			for k, st := range plans[t] {
				detsched.Yield("derive", int64(k))
				recv := shared[0]
				if st.recv >= 0 {
					recv = shared[st.recv]
				} else if i := -st.recv - 1; i < len(mine) {
					recv = mine[i]
				}
				d, _ := st.o.Run(recv)
				if d != nil && meshsnap.Take(*d).AttrLenStable {
					mine = append(mine, *d)
					results[t] = append(results[t], produced{mesh: *d, snap: meshsnap.Take(*d), line: fmt.Sprintf("t%d: %s", t, st.o.Name)})
				}
			}
		})
	}
	out := s.Run()
	res.Steps = int(out.Steps)
	res.Count("fault:schedule-policy:"+out.PolicyName, 1)
	res.Count("sched:steps", int(out.Steps))
	res.LogHash = out.Signature()
	for t := range plans {
		for _, st := range plans[t] {
			hist = append(hist, fmt.Sprintf("deriver%d: %s on %d", t, st.o.Name, st.recv))
			res.Count("op:"+family(st.o.Name), 1)
		}
	}
	res.Sig = fmt.Sprintf("%016x/%s", choice.Hash64(strings.Join(hist, ";")), out.Signature())
	res.DetHash = fmt.Sprintf("%016x/%s", choice.Hash64(strings.Join(hist, ";")), out.Decisions)
	res.Nontrivial = out.Switches >= 1
	detail := map[string]any{"history": hist, "policy": out.PolicyName}
	switch {
	case out.Trouble != "":
		res.Violation = &sim.Violation{Class: "HARNESS/" + out.Trouble, Msg: out.Trouble}
		return res
	case out.Deadlock || out.NoProgress:
		res.Violation = &sim.Violation{Class: "deadlock", Msg: "derivations do not finish: " + strings.Join(out.Blocked, "; "), Detail: detail}
		return res
	}
	// after the join: every shared value and every derived value is intact
	for i, sl := range pool {
		if d := meshsnap.Diff(sl.snap, meshsnap.Take(sl.mesh)); d != "" {
			res.Violation = &sim.Violation{Class: "shared-mesh-changed", Msg: fmt.Sprintf("m%d (%s), shared by the tasks, changed: %s", i, sl.label, d), Detail: detail}
			return res
		}
	}
	for t := range results {
		for _, p := range results[t] {
			if d := meshsnap.Diff(p.snap, meshsnap.Take(p.mesh)); d != "" {
				res.Violation = &sim.Violation{Class: "derived-mesh-changed", Msg: fmt.Sprintf("a mesh derived by %s changed after it was obtained (another task's derivation wrote into it): %s", p.line, d), Detail: detail}
				return res
			}
		}
	}
	for k, v := range counts {
		res.Count(k, v)
	}
	if opt.WantSample {
		res.Sample = detail
	}
	return res
}
