//go:build verif

package c10

import (
	"fmt"
	"sort"

	"github.com/EliCDavis/polyform/math/sample"
	"github.com/EliCDavis/polyform/modeling"
	"github.com/EliCDavis/polyform/modeling/marching"
	"github.com/EliCDavis/vector/vector3"

	"verif/internal/choice"
	"verif/internal/detsched"
	"verif/internal/sim"
)

// March: MarchParallel against March on the same canvas.
type March struct{ Fast bool }

func (March) Prop() string { return "C10" }
func (m March) Name() string {
	if m.Fast {
		return "march-norace"
	}
	return "march"
}
func (March) Isolated() bool    { return true }
func (m March) NeedsRace() bool { return !m.Fast }

// triKeys: multiset of rotation-canonical triples of welded-cell keys.
func triKeys(m modeling.Mesh, attr string) []string {
	if m.PrimitiveCount() == 0 || !m.HasFloat3Attribute(attr) {
		return nil
	}
	pos := m.Float3Attribute(attr)
	idx := m.Indices()
	var out []string
	for t := 0; t+2 < idx.Len(); t += 3 {
		k := [3]modeling.VectorInt{
			modeling.Vector3ToInt(pos.At(idx.At(t)), 3),
			modeling.Vector3ToInt(pos.At(idx.At(t+1)), 3),
			modeling.Vector3ToInt(pos.At(idx.At(t+2)), 3),
		}
		// rotate so that the smallest key comes first (keeps orientation)
		b := 0
		for i := 1; i < 3; i++ {
			if lessVI(k[i], k[b]) {
				b = i
			}
		}
		out = append(out, fmt.Sprintf("%v|%v|%v", k[b], k[(b+1)%3], k[(b+2)%3]))
	}
	sort.Strings(out)
	return out
}

func lessVI(a, b modeling.VectorInt) bool {
	if a.X != b.X {
		return a.X < b.X
	}
	if a.Y != b.Y {
		return a.Y < b.Y
	}
	return a.Z < b.Z
}

func (mr March) Run(c choice.Chooser, opt sim.Options) sim.Result {
	res := sim.Result{Evals: 1}
	cpu := []float64{2, 1, 5, 10}[c.Intn("cubes-per-unit", 4)]
	w := []int{2, 3, 4, 16, 1}[c.Intn("workers", 5)]
	// 1..3 shapes; library shapes so that the surface is a real one
	canvas := marching.NewMarchingCanvas(cpu)
	// the attribute the surface is marched on (MarchParallel is shorthand
	// for the Position attribute)
	attr := modeling.PositionAttribute
	if c.Intn("attr", 3) == 2 {
		attr = "density"
	}
	add := func(f marching.Field) {
		if attr != modeling.PositionAttribute {
			f.Float1Functions = map[string]sample.Vec3ToFloat{attr: f.Float1Functions[modeling.PositionAttribute]}
		}
		canvas.AddField(f)
	}
	var shapes []string
	ns := 1 + c.Intn("shapes", 2)
	maxBlocks := 2
	if opt.Tier == "thorough" || mr.Fast {
		maxBlocks = 4
	}
	// now and then a field that spans many blocks with few workers: more
	// blocks than workers plus channel capacities
	if (mr.Fast || opt.Tier == "thorough") && c.Intn("manyblocks", 6) == 5 {
		w = 2 + c.Intn("manyblocks:workers", 2)
		nb := 5 + c.Intn("manyblocks:n", 6)
		length := float64(100*nb-60) / cpu
		add(marching.Line(vector3.New(10/cpu, 30/cpu, 30/cpu), vector3.New(10/cpu+length, 30/cpu, 30/cpu), 3/cpu, 1))
		shapes = append(shapes, fmt.Sprintf("long-line %d blocks", nb))
		ns = 0
		res.Count("probe:more-blocks-than-workers-and-buffers", 1)
	}
	for i := 0; i < ns; i++ {
		// centre near a block boundary on the x axis for some shapes
		var ctr vector3.Float64
		across := c.Intn("shape:across", 3)
		bx := float64(100*(c.Intn("shape:block", 2))) / cpu
		switch across {
		case 0:
			ctr = vector3.New(bx+40/cpu, 30/cpu, 30/cpu)
		case 1:
			ctr = vector3.New(bx, 30/cpu, 30/cpu)
		default:
			ctr = vector3.New(bx-4/cpu, 30/cpu, 30/cpu)
		}
		r := float64(2+c.Intn("shape:size", 4)) / cpu
		switch c.Intn("shape:kind", 4) {
		case 0:
			add(marching.Sphere(ctr, r, 1))
			shapes = append(shapes, fmt.Sprintf("sphere c=%v r=%v", ctr, r))
		case 1:
			add(marching.Box(ctr, vector3.New(r, r*1.5, r*0.7), 1))
			shapes = append(shapes, fmt.Sprintf("box c=%v r=%v", ctr, r))
		case 2:
			add(marching.Line(ctr, ctr.Add(vector3.New(3*r, r, 0)), r/2, 1))
			shapes = append(shapes, fmt.Sprintf("line c=%v r=%v", ctr, r))
		default:
			// a field with no surface at the cutoff: far away from zero
			sp := marching.Sphere(ctr, r, 1)
			f := sp.Float1Functions[modeling.PositionAttribute]
			sp.Float1Functions[modeling.PositionAttribute] = func(v vector3.Float64) float64 { return f(v) + 1000 }
			add(sp)
			shapes = append(shapes, fmt.Sprintf("no-surface c=%v r=%v", ctr, r))
		}
	}
	nblocks := 0
	for _, b := range canvas.VerifFloat1Blocks() {
		nblocks += len(b)
	}
	_ = maxBlocks
	cutoff := -float64(c.Intn("cutoff", 3)) * 0.1 / cpu
	desc := fmt.Sprintf("MarchParallel attr="+attr+" cubesPerUnit=%v workers=%d cutoff=%v blocks=%d shapes=%v", cpu, w, cutoff, nblocks, shapes)

	var want []string
	var seqPanic any
	func() {
		defer func() { seqPanic = recover() }()
		if attr == modeling.PositionAttribute {
			want = triKeys(canvas.March(cutoff), attr)
		} else {
			want = triKeys(canvas.MarchOnAttribute(attr, cutoff), attr)
		}
	}()

	workers = w
	defer func() { workers = 0 }()
	var got []string
	s := detsched.New(c)
	s.Go("caller", func() {
		var r modeling.Mesh
		if attr == modeling.PositionAttribute {
			r = canvas.MarchParallel(cutoff)
		} else {
			r = canvas.MarchOnAttributeParallel(attr, cutoff)
		}
		detsched.Yield("caller:returned", 0)
		got = triKeys(r, attr)
	})
	out := s.Run()
	detail := func() map[string]any {
		return map[string]any{"call": desc, "policy": out.PolicyName, "schedule": schedule(out), "sequential_triangles": len(want), "parallel_triangles": len(got)}
	}
	res.Sig = desc + "/" + out.Signature()
	res.DetHash = desc + "/" + out.Decisions
	res.Cells = []string{fmt.Sprintf("march|w%d|blocks%d|surface=%v", w, nblocks, len(want) > 0)}
	res.Nontrivial = interleaved(out)
	if res.Nontrivial {
		res.Count("probe:workers-interleaved", 1)
	}
	if nblocks > 1 {
		res.Count("probe:field-spans-many-blocks", 1)
	}
	if len(want) == 0 {
		res.Count("probe:no-surface", 1)
	}
	res.Count("blocks", nblocks)
	res.Count("triangles", len(want))
	if out.Trouble != "" || out.Deadlock || out.NoProgress {
		schedVerdict(out, &res, s.FairBound, detail)
		return res
	}
	res.Steps = int(out.Steps)
	res.Count("fault:schedule-policy:"+out.PolicyName, 1)
	res.Count("sched:steps", int(out.Steps))
	res.Count("sched:adopted-workers", out.Adopted)
	res.LogHash = out.Signature()
	parPanic := ""
	for _, p := range out.Panics {
		parPanic = firstLine(p)
	}
	// same observable outcome also means: both panic or neither does
	if (seqPanic != nil) != (parPanic != "") {
		res.Violation = &sim.Violation{Class: "panic-mismatch", Msg: fmt.Sprintf("%s: March panics: %v; MarchParallel panics: %q", desc, seqPanic, parPanic), Detail: detail()}
		return res
	}
	if seqPanic != nil {
		res.Count("probe:both-panic", 1)
		return res
	}
	if len(want) != len(got) {
		res.Violation = &sim.Violation{Class: "triangle-multiset-differs", Msg: fmt.Sprintf("%s: March yields %d triangles, MarchParallel %d", desc, len(want), len(got)), Detail: detail()}
		return res
	}
	for i := range want {
		if want[i] != got[i] {
			res.Violation = &sim.Violation{Class: "triangle-multiset-differs", Msg: fmt.Sprintf("%s: triangle multisets differ, e.g. %s vs %s", desc, want[i], got[i]), Detail: detail()}
			return res
		}
	}
	if opt.WantSample {
		res.Sample = detail()
	}
	return res
}
