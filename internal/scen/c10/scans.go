//go:build verif

package c10

import (
	"fmt"
	"math"
	"runtime"

	"github.com/EliCDavis/polyform/modeling"
	"github.com/EliCDavis/vector/vector2"
	"github.com/EliCDavis/vector/vector3"

	"verif/internal/choice"
	"verif/internal/detsched"
	"verif/internal/gen"
	"verif/internal/meshsnap"
	"verif/internal/sim"
)

// Scans: ScanPrimitives / ScanFloatN / ModifyFloatN ParallelWithPoolSize.
type Scans struct{}

func (Scans) Prop() string    { return "C10" }
func (Scans) Name() string    { return "pool-scans" }
func (Scans) Isolated() bool  { return true }
func (Scans) NeedsRace() bool { return true }

const (
	kPrimTri = iota
	kPrimPoint
	kPrimLine
	kScan1
	kScan2
	kScan3
	kMod1
	kMod2
	kMod3
	kKinds
)

var kindNames = []string{"ScanPrimitivesParallel/triangle", "ScanPrimitivesParallel/point", "ScanPrimitivesParallel/linestrip",
	"ScanFloat1AttributeParallel", "ScanFloat2AttributeParallel", "ScanFloat3AttributeParallel",
	"ModifyFloat1AttributeParallel", "ModifyFloat2AttributeParallel", "ModifyFloat3AttributeParallel"}

func fpPrim(p modeling.Primitive) string {
	switch t := p.(type) {
	case modeling.Tri:
		return fmt.Sprintf("tri(%d,%d,%d|%v)", t.P1(), t.P2(), t.P3(), t.BoundingBox(modeling.PositionAttribute))
	case *modeling.Tri:
		return fmt.Sprintf("tri(%d,%d,%d|%v)", t.P1(), t.P2(), t.P3(), t.BoundingBox(modeling.PositionAttribute))
	case *modeling.Line:
		return fmt.Sprintf("line(%d,%d|%v)", t.P1(), t.P2(), t.BoundingBox(modeling.PositionAttribute))
	}
	return fmt.Sprintf("%T(%v)", p, p.BoundingBox(modeling.PositionAttribute))
}

// maxCount bounds the element count (deeper in the thorough tier).
var maxCount = 48

func drawCount(c choice.Chooser, pool int) int {
	switch c.Intn("n:kind", 6) {
	case 0:
		return 1 + c.Intn("n", 6)
	case 1:
		return pool - 1 + c.Intn("n", 3) // pool-1, pool, pool+1
	case 2:
		k := 1 + c.Intn("n:k", 3)
		return k*pool - 1 + c.Intn("n", 3)
	case 3:
		return 1
	default:
		return 1 + c.Intn("n", maxCount)
	}
}

func (Scans) Run(c choice.Chooser, opt sim.Options) sim.Result {
	res := sim.Result{Evals: 1}
	maxN := 128
	maxCount = 100 // (48 until wave 4: batch-size arithmetic of dynamic work distribution needs room, C10-f1)
	if opt.Tier == "thorough" {
		maxCount, maxN = 300, 320 // deeper bounds
	}
	kind := c.Intn("kind", kKinds)
	var pool int
	switch c.Intn("pool:kind", 5) {
	case 0:
		pool = 2 + c.Intn("pool", 3)
	case 1:
		pool = 1 + c.Intn("pool", 8)
	case 2:
		pool = 16
	case 3:
		pool = 1 + c.Intn("pool", 50)
	default:
		pool = []int{2, 3, 4, 64}[c.Intn("pool", 4)]
	}
	// the *Parallel wrappers (pool = number of CPUs) are entry points too
	wrapper := c.Intn("wrapper", 5) == 4
	if wrapper {
		pool = runtime.NumCPU()
	}
	n := drawCount(c, pool)
	if n < 1 {
		n = 1
	}
	if n > maxN {
		n = maxN
	}
	// empty meshes are element counts too (primitive scans only: an attribute
	// scan on a mesh without the attribute is rejected by both variants)
	empty := kind <= kPrimLine && c.Intn("n:empty", 12) == 11
	if empty {
		n = 0
	}

	// build the mesh: element count n means primitives for primitive scans,
	// attribute length otherwise
	var m modeling.Mesh
	switch {
	case empty:
		topo := []modeling.Topology{modeling.TriangleTopology, modeling.PointTopology, modeling.LineStripTopology}[kind]
		if kind == kPrimLine && choice.Bool(c, "empty:one-vertex") {
			// a strip of one vertex: zero primitives
			m = modeling.NewMesh(topo, []int{0}).SetFloat3Attribute(modeling.PositionAttribute, gen.F3s(c, "pos", 1, false))
		} else {
			m = modeling.EmptyMesh(topo)
		}
		res.Count("probe:empty-mesh", 1)
	default:
		m = buildScanMesh(c, kind, n)
	}
	before := meshsnap.Take(m)

	// which callback invocations yield to the scheduler
	yieldAt := make([]bool, n+1)
	yk := 1 + c.Intn("yield:every", 6)
	for i := range yieldAt {
		yieldAt[i] = c.Intn("yield", yk) == 0
	}

	// sequential reference
	want := make([]string, n)
	var seqPanic any
	var wantMesh *meshsnap.Snap
	func() {
		defer func() { seqPanic = recover() }()
		switch kind {
		case kPrimTri, kPrimPoint, kPrimLine:
			m.ScanPrimitives(func(i int, p modeling.Primitive) { want[i] = fpPrim(p) })
		case kScan1:
			m.ScanFloat1Attribute("f1", func(i int, v float64) { want[i] = fmt.Sprint(math.Float64bits(v)) })
		case kScan2:
			m.ScanFloat2Attribute("f2", func(i int, v vector2.Float64) { want[i] = fmt.Sprint(v) })
		case kScan3:
			m.ScanFloat3Attribute(modeling.PositionAttribute, func(i int, v vector3.Float64) { want[i] = fmt.Sprint(v) })
		case kMod1:
			r := m.ModifyFloat1Attribute("f1", func(i int, v float64) float64 { want[i] = fmt.Sprint(math.Float64bits(v)); return v*2 + float64(i) })
			wantMesh = meshsnap.Take(r)
		case kMod2:
			r := m.ModifyFloat2Attribute("f2", func(i int, v vector2.Float64) vector2.Float64 {
				want[i] = fmt.Sprint(v)
				return v.Scale(2).Add(vector2.New(float64(i), 1))
			})
			wantMesh = meshsnap.Take(r)
		case kMod3:
			r := m.ModifyFloat3Attribute(modeling.PositionAttribute, func(i int, v vector3.Float64) vector3.Float64 {
				want[i] = fmt.Sprint(v)
				return v.Scale(2).Add(vector3.New(float64(i), 1, 2))
			})
			wantMesh = meshsnap.Take(r)
		}
	}()

	// parallel variant under the seeded scheduler
	visits := make([]int, n)
	got := make([]string, n)
	oob := -1
	var gotMesh *meshsnap.Snap
	var retMesh *meshsnap.Snap
	visit := func(i int, fp string) {
		if i < 0 || i >= n {
			oob = i
			return
		}
		if yieldAt[i] {
			detsched.Yield("callback", int64(i))
		}
		visits[i]++
		got[i] = fp
	}
	s := detsched.New(c)
	s.Go("caller", func() {
		var r modeling.Mesh
		switch kind {
		case kPrimTri, kPrimPoint, kPrimLine:
			if wrapper {
				r = m.ScanPrimitivesParallel(func(i int, p modeling.Primitive) { visit(i, fpPrim(p)) })
			} else {
				r = m.ScanPrimitivesParallelWithPoolSize(pool, func(i int, p modeling.Primitive) { visit(i, fpPrim(p)) })
			}
		case kScan1:
			if wrapper {
				r = m.ScanFloat1AttributeParallel("f1", func(i int, v float64) { visit(i, fmt.Sprint(math.Float64bits(v))) })
			} else {
				r = m.ScanFloat1AttributeParallelWithPoolSize("f1", pool, func(i int, v float64) { visit(i, fmt.Sprint(math.Float64bits(v))) })
			}
		case kScan2:
			if wrapper {
				r = m.ScanFloat2AttributeParallel("f2", func(i int, v vector2.Float64) { visit(i, fmt.Sprint(v)) })
			} else {
				r = m.ScanFloat2AttributeParallelWithPoolSize("f2", pool, func(i int, v vector2.Float64) { visit(i, fmt.Sprint(v)) })
			}
		case kScan3:
			if wrapper {
				r = m.ScanFloat3AttributeParallel(modeling.PositionAttribute, func(i int, v vector3.Float64) { visit(i, fmt.Sprint(v)) })
			} else {
				r = m.ScanFloat3AttributeParallelWithPoolSize(modeling.PositionAttribute, pool, func(i int, v vector3.Float64) { visit(i, fmt.Sprint(v)) })
			}
		case kMod1:
			f := func(i int, v float64) float64 {
				visit(i, fmt.Sprint(math.Float64bits(v)))
				return v*2 + float64(i)
			}
			if wrapper {
				r = m.ModifyFloat1AttributeParallel("f1", f)
			} else {
				r = m.ModifyFloat1AttributeParallelWithPoolSize("f1", pool, f)
			}
		case kMod2:
			f := func(i int, v vector2.Float64) vector2.Float64 {
				visit(i, fmt.Sprint(v))
				return v.Scale(2).Add(vector2.New(float64(i), 1))
			}
			if wrapper {
				r = m.ModifyFloat2AttributeParallel("f2", f)
			} else {
				r = m.ModifyFloat2AttributeParallelWithPoolSize("f2", pool, f)
			}
		case kMod3:
			f := func(i int, v vector3.Float64) vector3.Float64 {
				visit(i, fmt.Sprint(v))
				return v.Scale(2).Add(vector3.New(float64(i), 1, 2))
			}
			if wrapper {
				r = m.ModifyFloat3AttributeParallel(modeling.PositionAttribute, f)
			} else {
				r = m.ModifyFloat3AttributeParallelWithPoolSize(modeling.PositionAttribute, pool, f)
			}
		}
		detsched.Yield("caller:returned", 0)
		retMesh = meshsnap.Take(r)
		if kind >= kMod1 {
			gotMesh = retMesh
		}
	})
	out := s.Run()
	desc := fmt.Sprintf("%s pool=%d n=%d", kindNames[kind], pool, n)
	if wrapper {
		desc = fmt.Sprintf("%s (wrapper, pool=NumCPU=%d) n=%d", kindNames[kind], pool, n)
		res.Count("probe:numcpu-wrapper", 1)
	}
	detail := func() map[string]any {
		return map[string]any{"call": desc, "policy": out.PolicyName, "schedule": schedule(out), "visits": visits}
	}
	res.Sig = fmt.Sprintf("%s/%s", desc, out.Signature())
	res.DetHash = desc + "/" + out.Decisions
	res.Cells = []string{fmt.Sprintf("%s|pool%s|n%s", kindNames[kind], bucket(pool), relBucket(n, pool))}
	res.Nontrivial = interleaved(out)
	if res.Nontrivial {
		res.Count("probe:workers-interleaved", 1)
	}
	if n < pool {
		res.Count("probe:fewer-elements-than-workers", 1)
	}
	if n%pool != 0 {
		res.Count("probe:count-not-divisible-by-pool", 1)
	}
	if seqPanic != nil {
		// the generator does not produce inputs the sequential variant rejects
		res.Violation = &sim.Violation{Class: "HARNESS/sequential-panicked", Msg: fmt.Sprint(seqPanic)}
		return res
	}
	if schedVerdict(out, &res, s.FairBound, detail) {
		return res
	}
	// callbacks after the call returned?
	retStep := int64(-1)
	for _, e := range out.Events {
		if e.Site == "caller:returned" {
			retStep = e.Step
		}
	}
	for _, e := range out.Events {
		if e.Site == "callback" && retStep >= 0 && e.Released > retStep {
			res.Violation = &sim.Violation{Class: "returned-before-callbacks-finished", Msg: desc + ": the call returned while a callback was still outstanding", Detail: detail()}
			return res
		}
	}
	if oob >= 0 {
		res.Violation = &sim.Violation{Class: "index-out-of-range", Msg: fmt.Sprintf("%s: callback invoked with index %d", desc, oob), Detail: detail()}
		return res
	}
	for i := 0; i < n; i++ {
		if visits[i] != 1 {
			res.Violation = &sim.Violation{Class: "visit-count", Msg: fmt.Sprintf("%s: element %d was visited %d times (every element must be visited exactly once); visits=%v", desc, i, visits[i], visits), Detail: detail()}
			return res
		}
		if got[i] != want[i] {
			res.Violation = &sim.Violation{Class: "wrong-element", Msg: fmt.Sprintf("%s: callback for index %d received %s, the sequential scan hands over %s", desc, i, got[i], want[i]), Detail: detail()}
			return res
		}
	}
	if kind >= kMod1 {
		if d := meshsnap.Diff(wantMesh, gotMesh); d != "" {
			res.Violation = &sim.Violation{Class: "modify-result-differs", Msg: desc + ": result differs from the sequential Modify: " + d, Detail: detail()}
			return res
		}
	} else if d := meshsnap.Diff(before, retMesh); d != "" {
		res.Violation = &sim.Violation{Class: "scan-result-differs", Msg: desc + ": Scan must return the receiver: " + d, Detail: detail()}
		return res
	}
	if d := meshsnap.Diff(before, meshsnap.Take(m)); d != "" {
		res.Violation = &sim.Violation{Class: "receiver-changed", Msg: desc + ": the receiver mesh changed: " + d, Detail: detail()}
		return res
	}
	if opt.WantSample {
		res.Sample = detail()
	}
	return res
}

func bucket(p int) string {
	switch {
	case p <= 4:
		return fmt.Sprint(p)
	case p <= 8:
		return "5-8"
	case p <= 16:
		return "9-16"
	}
	return ">16"
}

func relBucket(n, pool int) string {
	switch {
	case n < pool:
		return "<pool"
	case n == pool:
		return "=pool"
	case n%pool == 0:
		return "k*pool"
	}
	return "k*pool+r"
}

// buildScanMesh builds a mesh with n elements: primitives for primitive
// scans, attribute length otherwise.
func buildScanMesh(c choice.Chooser, kind, n int) modeling.Mesh {
	var m modeling.Mesh
	switch kind {
	case kPrimTri:
		verts := 3 + c.Intn("verts", 9)
		idx := make([]int, 3*n)
		welded := choice.Bool(c, "welded")
		if !welded {
			verts = 3 * n
		}
		for i := range idx {
			if welded {
				idx[i] = c.Intn("idx", verts)
			} else {
				idx[i] = i
			}
		}
		m = modeling.NewTriangleMesh(idx).SetFloat3Attribute(modeling.PositionAttribute, gen.F3s(c, "pos", verts, false))
	case kPrimLine:
		m = modeling.NewLineStripMesh(map[string][]vector3.Float64{modeling.PositionAttribute: gen.F3s(c, "pos", n+1, false)}, nil, nil, nil)
	default:
		m = modeling.NewPointCloud(nil,
			map[string][]vector3.Float64{modeling.PositionAttribute: gen.F3s(c, "pos", n, false)},
			map[string][]vector2.Float64{"f2": gen.F2s(c, "f2", n)},
			map[string][]float64{"f1": gen.F1s(c, "f1", n, false)}, nil)
	}
	return m
}
