//go:build verif

package c10

import (
	"fmt"
	"math"
	"sort"

	"github.com/EliCDavis/polyform/math/geometry"
	"github.com/EliCDavis/polyform/math/sample"
	"github.com/EliCDavis/polyform/modeling"
	"github.com/EliCDavis/polyform/modeling/marching"
	"github.com/EliCDavis/vector/vector3"

	"verif/internal/choice"
	"verif/internal/detsched"
	"verif/internal/sim"
)

// fieldSpec is a small analytic field whose padded domain straddles block
// boundaries (blocks are 100 cells wide).
type fieldSpec struct {
	Center   [3]float64
	Half     [3]float64
	Coef     [3]float64
	Bias     float64
	Attrs    []string
	YieldMod int
}

func (f fieldSpec) fn(k int) sample.Vec3ToFloat {
	cx, cy, cz := f.Coef[0], f.Coef[1], f.Coef[2]
	bias := f.Bias + float64(k)*0.37
	center := vector3.New(f.Center[0], f.Center[1], f.Center[2])
	ym := f.YieldMod
	return func(p vector3.Float64) float64 {
		// asymmetric in x, y, z: swapping coordinates changes the value
		if ym > 0 {
			h := int(math.Abs(p.X()*7919+p.Y()*104729+p.Z()*1299709)) % ym
			if h == 0 {
				detsched.Yield("field:sample", 0)
			}
		}
		d := p.Sub(center)
		return d.X()*cx + d.Y()*cy*1.7 + d.Z()*cz*2.9 + d.Length() - bias
	}
}

func (f fieldSpec) field() marching.Field {
	fns := map[string]sample.Vec3ToFloat{}
	for k, a := range f.Attrs {
		fns[a] = f.fn(k)
	}
	return marching.Field{
		Domain:          geometry.NewAABB(vector3.New(f.Center[0], f.Center[1], f.Center[2]), vector3.New(2*f.Half[0], 2*f.Half[1], 2*f.Half[2])),
		Float1Functions: fns,
	}
}

// genField places the field so that its cell range crosses 0..2 block
// boundaries per axis.
func genField(c choice.Chooser, cubesPerUnit float64, attrs []string, yieldMod int) fieldSpec {
	f := fieldSpec{Attrs: attrs, YieldMod: yieldMod}
	for ax := 0; ax < 3; ax++ {
		// a block boundary in cells: k*100 -> in units k*100/cpu
		k := c.Intn("field:block", 3) - 1
		boundary := float64(k*100) / cubesPerUnit
		switch c.Intn("field:straddle", 3) {
		case 0: // inside one block
			f.Center[ax] = boundary + 30/cubesPerUnit
		case 1: // across the boundary
			f.Center[ax] = boundary
		default: // touching it from below
			f.Center[ax] = boundary - 3/cubesPerUnit
		}
		f.Half[ax] = float64(1+c.Intn("field:half", 3)) / cubesPerUnit
		f.Coef[ax] = float64(c.Intn("field:coef", 5)-2) / 2
	}
	f.Bias = float64(c.Intn("field:bias", 7)) / cubesPerUnit
	return f
}

type blocks = map[string]map[modeling.VectorInt][]float64

// diffCanvas compares the accumulated field data of two canvases exactly.
func diffCanvas(want, got blocks) string {
	var attrs []string
	for a := range want {
		attrs = append(attrs, a)
	}
	sort.Strings(attrs)
	if len(got) != len(want) {
		return fmt.Sprintf("attribute sets differ: %d vs %d", len(want), len(got))
	}
	for _, a := range attrs {
		w, g := want[a], got[a]
		if g == nil {
			return fmt.Sprintf("attribute %q missing", a)
		}
		if len(w) != len(g) {
			return fmt.Sprintf("attribute %q: %d blocks allocated sequentially, %d in parallel", a, len(w), len(g))
		}
		var ps []modeling.VectorInt
		for p := range w {
			ps = append(ps, p)
		}
		sort.Slice(ps, func(i, j int) bool {
			if ps[i].X != ps[j].X {
				return ps[i].X < ps[j].X
			}
			if ps[i].Y != ps[j].Y {
				return ps[i].Y < ps[j].Y
			}
			return ps[i].Z < ps[j].Z
		})
		for _, p := range ps {
			wb, gb := w[p], g[p]
			if gb == nil {
				return fmt.Sprintf("attribute %q: block (%v) not allocated by the parallel variant", a, p)
			}
			for i := range wb {
				if math.Float64bits(wb[i]) != math.Float64bits(gb[i]) {
					return fmt.Sprintf("attribute %q block (%v) cell (%d,%d,%d): sequential %v, parallel %v", a, p, i%100, (i/100)%100, i/10000, wb[i], gb[i])
				}
			}
		}
	}
	return ""
}

// AddFields: AddFieldParallel / AddFieldParallel2 against AddField.
type AddFields struct{}

func (AddFields) Prop() string    { return "C10" }
func (AddFields) Name() string    { return "add-field" }
func (AddFields) Isolated() bool  { return true }
func (AddFields) NeedsRace() bool { return true }

func (AddFields) Run(c choice.Chooser, opt sim.Options) sim.Result {
	res := sim.Result{Evals: 1}
	variant := c.Intn("variant", 2) // 0 AddFieldParallel, 1 AddFieldParallel2
	cpu := []float64{1, 2, 5, 10}[c.Intn("cubes-per-unit", 4)]
	w := []int{2, 3, 4, 1, 16}[c.Intn("workers", 5)]
	attrs := []string{modeling.PositionAttribute}
	// half of the runs carry several attributes in one field: per-attribute
	// state (sections, block lists, anything a worker remembers between two
	// jobs) is where a parallel variant can mix them up (seeded change C10-f2)
	switch c.Intn("attrs", 4) {
	case 2:
		attrs = append(attrs, "density")
	case 3:
		attrs = append(attrs, "density", "heat")
	}
	ym := []int{0, 97, 23, 7}[c.Intn("yieldmod", 4)]
	nFields := 1 + c.Intn("fields", 2)
	var specs []fieldSpec
	for i := 0; i < nFields; i++ {
		specs = append(specs, genField(c, cpu, attrs, ym))
	}
	pre := choice.Bool(c, "prefill")
	name := []string{"AddFieldParallel", "AddFieldParallel2"}[variant]
	desc := fmt.Sprintf("%s cubesPerUnit=%v workers=%d attrs=%d fields=%d prefill=%v", name, cpu, w, len(attrs), nFields, pre)

	seq := marching.NewMarchingCanvas(cpu)
	par := marching.NewMarchingCanvas(cpu)
	if pre {
		// the canvas already holds data (same in both), so blocks exist
		p := specs[0]
		p.YieldMod = 0
		p.Bias += 0.5
		seq.AddField(p.field())
		par.AddField(p.field())
	}
	var seqPanic any
	func() {
		defer func() { seqPanic = recover() }()
		for _, sp := range specs {
			q := sp
			q.YieldMod = 0
			seq.AddField(q.field())
		}
	}()

	workers = w
	defer func() { workers = 0 }()
	s := detsched.New(c)
	s.Budget = 600
	s.Go("caller", func() {
		for _, sp := range specs {
			if variant == 0 {
				par.AddFieldParallel(sp.field())
			} else {
				par.AddFieldParallel2(sp.field())
			}
			detsched.Yield("caller:returned", 0)
		}
	})
	out := s.Run()
	detail := func() map[string]any {
		return map[string]any{"call": desc, "fields": specs, "policy": out.PolicyName, "schedule": schedule(out)}
	}
	res.Sig = desc + "/" + out.Signature()
	res.DetHash = desc + "/" + out.Decisions
	nblocks := 0
	for _, b := range seq.VerifFloat1Blocks() {
		nblocks += len(b)
	}
	res.Cells = []string{fmt.Sprintf("%s|w%d|attrs%d|blocks%s", name, w, len(attrs), bucket(nblocks))}
	res.Nontrivial = interleaved(out)
	if res.Nontrivial {
		res.Count("probe:workers-interleaved", 1)
	}
	if nblocks > len(attrs) {
		res.Count("probe:field-spans-many-blocks", 1)
	}
	res.Count("blocks", nblocks)
	if seqPanic != nil {
		res.Violation = &sim.Violation{Class: "HARNESS/sequential-panicked", Msg: fmt.Sprint(seqPanic)}
		return res
	}
	if schedVerdict(out, &res, s.FairBound, detail) {
		return res
	}
	// workers still alive after the call returned?
	last := int64(-1)
	for _, e := range out.Events {
		if e.Site == "caller:returned" {
			last = e.Step
		}
	}
	for _, e := range out.Events {
		if e.Task != 0 && last >= 0 && e.Step > last && (e.Site == "field:sample" || e.Site == "canvas:chunk:locked") {
			res.Violation = &sim.Violation{Class: "returned-before-workers-finished", Msg: desc + ": a worker was still writing after the call returned", Detail: detail()}
			return res
		}
	}
	if d := diffCanvas(seq.VerifFloat1Blocks(), par.VerifFloat1Blocks()); d != "" {
		res.Violation = &sim.Violation{Class: "field-data-differs/" + name, Msg: desc + ": accumulated field differs from AddField: " + d, Detail: detail()}
		return res
	}
	if opt.WantSample {
		res.Sample = detail()
	}
	return res
}
