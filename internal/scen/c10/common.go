//go:build verif

// Package c10 decides property C10: every parallel entry point produces the
// observable result of its sequential counterpart on every schedule, worker
// count and size, and is free of data races.
package c10

import (
	"fmt"
	"sort"
	"strings"

	"github.com/EliCDavis/polyform/modeling"
	"github.com/EliCDavis/polyform/modeling/marching"

	"verif/internal/detsched"
	"verif/internal/sim"
)

// workers is what marching's runtime.NumCPU() is replaced by in the current
// run (0: leave as is).
var workers int

func init() {
	modeling.VerifYield = func(site string) { detsched.Yield(site, 0) }
	marching.VerifYield = func(site string) { detsched.Yield(site, 0) }
	marching.VerifWorkers = func(n int) int {
		if workers > 0 {
			return workers
		}
		return n
	}
}

// schedVerdict turns scheduler-level outcomes into violations.
func schedVerdict(out detsched.Outcome, res *sim.Result, fairBound int64, detail func() map[string]any) bool {
	res.Steps = int(out.Steps)
	res.Count("fault:schedule-policy:"+out.PolicyName, 1)
	res.Count("sched:steps", int(out.Steps))
	res.Count("sched:switches", out.Switches)
	res.Count("sched:adopted-workers", out.Adopted)
	res.LogHash = out.Signature()
	if out.Leaked > 0 {
		res.Count("probe:goroutines-left-blocked-after-return", out.Leaked)
	}
	switch {
	case out.Trouble != "":
		res.Violation = &sim.Violation{Class: "HARNESS/" + out.Trouble, Msg: out.Trouble}
	case out.Deadlock:
		res.Violation = &sim.Violation{Class: "deadlock", Msg: "the parallel call cannot finish: " + strings.Join(out.Blocked, "; "), Detail: detail()}
	case out.NoProgress:
		res.Violation = &sim.Violation{Class: "no-progress", Msg: fmt.Sprintf("the call did not return within %d fair steps", fairBound), Detail: detail()}
	case len(out.Panics) > 0:
		var names []string
		for n, p := range out.Panics {
			names = append(names, n+": "+firstLine(p))
		}
		sort.Strings(names)
		res.Violation = &sim.Violation{Class: "panic", Msg: "the parallel variant panicked where the sequential one did not: " + strings.Join(names, "; "), Detail: detail()}
	default:
		return false
	}
	return true
}

func firstLine(s string) string {
	if i := strings.IndexByte(s, '\n'); i >= 0 {
		return s[:i]
	}
	return s
}

func schedule(out detsched.Outcome) []string {
	var h []string
	for _, e := range out.Events {
		h = append(h, fmt.Sprintf("s%d t%d %s#%d", e.Step, e.Task, e.Site, e.Aux))
		if len(h) >= 400 {
			h = append(h, "...")
			break
		}
	}
	return h
}

// workerSwitches counts switches between two different non-root tasks or
// between root and a worker while the call is in flight.
func interleaved(out detsched.Outcome) bool {
	last := -1
	kids := map[int]bool{}
	sw := 0
	for _, e := range out.Events {
		if e.Task != 0 {
			kids[e.Task] = true
		}
		if last >= 0 && e.Task != last && (e.Task != 0 || last != 0) && len(kids) >= 2 {
			sw++
		}
		last = e.Task
	}
	return sw >= 1
}
