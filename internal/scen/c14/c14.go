// Package c14 decides property C14: decoding a strict prefix of a valid model
// file either fails or returns only data wholly present; it terminates.
//
// One run = one generated valid file; within the run the crash-point space
// (every cut position) is enumerated completely, each prefix is delivered to
// the decoder through simulated streams with seeded delivery schedules.
package c14

import (
	"bytes"
	"fmt"
	"io"
	"time"

	"github.com/EliCDavis/polyform/formats/ply"
	"github.com/EliCDavis/polyform/formats/pts"
	"github.com/EliCDavis/polyform/formats/splat"
	"github.com/EliCDavis/polyform/formats/spz"
	"github.com/EliCDavis/polyform/formats/stl"
	"github.com/EliCDavis/polyform/modeling"

	"verif/internal/choice"
	"verif/internal/meshsnap"
	"verif/internal/sim"
	"verif/internal/simio"
	"verif/internal/watchdog"
)

type Scenario struct{}

func (Scenario) Prop() string    { return "C14" }
func (Scenario) Name() string    { return "truncated-files" }
func (Scenario) Isolated() bool  { return false }
func (Scenario) NeedsRace() bool { return false }

// CPULimit is the CPU time after which an outstanding decode of a <=64 KB
// prefix counts as a hang (the unchanged decoders need well under 1 ms).
var CPULimit = 2 * time.Second

func decode(format int, r io.Reader) (*modeling.Mesh, error) {
	switch format {
	case FPlyASCII, FPlyLE, FPlyBE, FPlyForeign:
		return ply.ReadMesh(r)
	case FSTL:
		return stl.ReadMesh(r)
	case FSplat:
		m, err := splat.Read(r)
		return &m, err
	case FSPZ:
		cl, err := spz.Read(r)
		if err != nil {
			return nil, err
		}
		return &cl.Mesh, nil
	default:
		return pts.ReadPointCloud(r)
	}
}

type outcome struct {
	kind string // ok | error | panic | hang
	snap *meshsnap.Snap
	err  string
	st   *simio.Stream
}

func guardedDecode(format int, r io.Reader) outcome {
	var m *modeling.Mesh
	var err error
	o := watchdog.Call(CPULimit, func() { m, err = decode(format, r) })
	switch {
	case o.Hung:
		return outcome{kind: "hang", err: fmt.Sprintf("no return after %v CPU", o.CPU)}
	case o.Panic != nil:
		if l, ok := o.Panic.(simio.Livelock); ok {
			return outcome{kind: "hang", err: l.Error()}
		}
		return outcome{kind: "panic", err: o.PanicString()}
	case err != nil:
		return outcome{kind: "error", err: err.Error()}
	case m == nil:
		return outcome{kind: "error", err: "nil mesh, nil error"}
	}
	// snapshotting a returned mesh may itself trip over an inconsistent
	// value; that is a (loud) defect of the returned data
	var s *meshsnap.Snap
	so := watchdog.Call(CPULimit, func() { s = meshsnap.Take(*m) })
	if so.Panic != nil || so.Hung {
		return outcome{kind: "ok-unreadable", err: so.PanicString()}
	}
	return outcome{kind: "ok", snap: s}
}

// subChooser derives an independent PRNG stream from drawn values, so that
// the per-read draws of thousands of streams do not flood the main trace.
func subChooser(base, a, b int) choice.Chooser {
	return choice.NewRandom(choice.Mix(int64(base), fmt.Sprintf("c14/%d", a), b))
}

// splatPrefix cuts the snapshot of a full .splat decode down to k records.
func splatPrefix(full *meshsnap.Snap, k int) *meshsnap.Snap {
	s := *full
	s.Indices = append([]int{}, full.Indices[:k]...)
	cut := func(m map[string][]uint64, w int) map[string][]uint64 {
		o := map[string][]uint64{}
		for key, v := range m {
			if k > 0 {
				o[key] = v[:k*w]
			}
		}
		return o
	}
	s.V1, s.V2, s.V3, s.V4 = cut(full.V1, 1), cut(full.V2, 2), cut(full.V3, 3), cut(full.V4, 4)
	s.AttrLen = k
	s.Prim = k
	return &s
}

type cutReport struct {
	File     string `json:"file"`
	Format   string `json:"format"`
	Len      int    `json:"file_len"`
	Cut      int    `json:"cut"`
	Region   string `json:"region"`
	Schedule string `json:"delivery"`
	Outcome  string `json:"outcome"`
	Error    string `json:"error,omitempty"`
	Diff     string `json:"diff,omitempty"`
	Bytes    []byte `json:"file_bytes,omitempty"`
	Reads    int    `json:"reads"`
}

func (Scenario) Run(c choice.Chooser, opt sim.Options) sim.Result {
	res := sim.Result{Evals: 0}
	f, err := genFile(c)
	if err != nil {
		// the library cannot write this mesh: not a C14 matter
		res.Count("discard:unwritable", 1)
		res.Evals = 1
		res.Sig = "unwritable"
		return res
	}
	fname := formatNames[f.Format]
	res.Count("files:"+fname, 1)

	// reference: complete file through a plain reader
	ref := guardedDecode(f.Format, bytes.NewReader(f.Bytes))
	if ref.kind != "ok" {
		res.Count("discard:complete-file-not-readable:"+fname, 1)
		res.Evals = 1
		res.Sig = "unreadable"
		return res
	}

	// the reference must be a function of the bytes: a decoder whose result
	// differs between two plain reads of the same file cannot be judged
	if again := guardedDecode(f.Format, bytes.NewReader(f.Bytes)); again.kind != "ok" || meshsnap.DiffContent(ref.snap, again.snap) != "" {
		res.Count("discard:decoder-nondeterministic:"+fname, 1)
		res.Evals = 1
		res.Sig = "decoder-nondeterministic"
		return res
	}

	// swarm knobs of this run
	schedBase := c.Intn("run:schedbase", 1<<30)
	perCut := 1 + c.Intn("run:percut", 2)
	if opt.Tier == "thorough" {
		perCut = 3 + c.Intn("run:percut", 3)
	}
	diskEvery := 1 + c.Intn("run:diskevery", 8)

	// fault-free control: the complete file under every chunking.
	for k := 0; k < simio.ChunkKinds; k++ {
		for _, end := range []int{simio.EndEOF, simio.EndEOFWithData} {
			sch := simio.Schedule{Chunk: k, End: end, EmptyRead: k == simio.ChunkRandom}
			st := simio.NewStream(f.Bytes, sch, subChooser(schedBase, -1, k*4+end))
			o := guardedDecode(f.Format, st)
			res.Evals++
			res.Steps += st.Reads
			if o.kind == "hang" {
				res.Violation = &sim.Violation{Class: fname + "/hang@complete-file", Msg: "decoder does not terminate on the complete file delivered as " + sch.String(),
					Detail: cutReport{File: f.Desc, Format: fname, Len: len(f.Bytes), Cut: len(f.Bytes), Region: "complete", Schedule: sch.String(), Outcome: o.kind, Error: o.err, Bytes: f.Bytes}}
				return res
			}
			if o.kind != "ok" || meshsnap.DiffContent(ref.snap, o.snap) != "" {
				// A decoder that reads the COMPLETE file differently when it
				// arrives in pieces has a codec defect, which is not C14's
				// business and is only counted. The file's prefixes are
				// still judged (wave h, C14-h3: discarding the file here hid
				// a reader that fabricates a record from every short read):
				// an accepted strict prefix must equal the reference decode,
				// whatever the reason it does not.
				res.Count("probe:complete-file-decodes-differently-in-pieces:"+fname, 1)
			}
		}
	}

	cuts := f.cutPoints()
	cellSeen := map[string]bool{}
	if len(f.Bytes) > LargeLimit {
		res.Count("files:large(cuts-around-buffer-boundaries-and-sampled)", 1)
		res.Count("probe:large-file", 1)
		if perCut > 2 {
			perCut = 2
		}
	}
	sigParts := []string{fname, fmt.Sprint(len(f.Bytes))}
	for ci, cut := range cuts {
		prefix := f.Bytes[:cut]
		reg := f.regionOf(cut)
		// now and then produce the prefix the honest way: the library's
		// writer onto a disk that crashes at the cut
		if f.write != nil && ci%diskEvery == 0 {
			d := simio.NewDisk(cut, ci%2 == 0)
			werr := f.write(d)
			res.Count("fault:disk-crash-write", 1)
			if d.WritesAfterCrash > 0 {
				res.Count("probe:writer-kept-writing-after-error", 1)
			}
			if werr == nil {
				res.Count("probe:writer-swallowed-disk-error", 1)
			}
			if !bytes.Equal(d.Bytes(), prefix) {
				res.Count("discard:writer-nondeterministic:"+fname, 1)
				res.Sig = "writer-nondeterministic"
				return res
			}
			prefix = d.Bytes()
		}
		for j := 0; j < perCut; j++ {
			// rotate through delivery kinds so that each cut meets
			// different chunkings/terminal errors across j and files
			sc := subChooser(schedBase, cut, j)
			sch := simio.DrawSchedule(sc)
			if j == 0 {
				sch.Chunk = (ci + schedBase) % simio.ChunkKinds
			}
			st := simio.NewStream(prefix, sch, sc)
			o := guardedDecode(f.Format, st)
			res.Evals++
			res.Steps += st.Reads
			res.Count("fault:cut", 1)
			res.Count("fault:delivery:"+sch.String(), 1)
			res.Count("outcome:"+o.kind, 1)
			if st.EmptyDelivered > 0 {
				res.Count("fault:empty-read", st.EmptyDelivered)
			}
			cell := fmt.Sprintf("%s|%s|%s|%s", fname, reg, sch.String(), o.kind)
			if !cellSeen[cell] {
				cellSeen[cell] = true
				res.Cells = append(res.Cells, cell)
			}
			rep := cutReport{File: f.Desc, Format: fname, Len: len(f.Bytes), Cut: cut, Region: reg, Schedule: sch.String(), Outcome: o.kind, Error: o.err, Reads: st.Reads}
			switch o.kind {
			case "error", "panic":
				// rejection (a panic is a loud rejection, counted apart)
			case "hang":
				rep.Bytes = f.Bytes
				res.Violation = &sim.Violation{Class: fmt.Sprintf("%s/hang@%s", fname, reg),
					Msg: fmt.Sprintf("decoding %s cut at %d/%d (%s) delivered %s does not terminate: %s", f.Desc, cut, len(f.Bytes), reg, sch, o.err), Detail: rep}
				return res
			case "ok-unreadable":
				rep.Bytes = f.Bytes
				res.Violation = &sim.Violation{Class: fmt.Sprintf("%s/inconsistent-mesh@%s", fname, reg),
					Msg: fmt.Sprintf("decoding %s cut at %d/%d returned a mesh whose accessors panic: %s", f.Desc, cut, len(f.Bytes), o.err), Detail: rep}
				return res
			case "ok":
				want := ref.snap
				what := "the complete file's mesh"
				if f.Format == FSplat {
					want = splatPrefix(ref.snap, cut/32)
					what = fmt.Sprintf("the first %d splats", cut/32)
				}
				d := meshsnap.DiffContent(want, o.snap)
				if d != "" && f.Format == FPTS {
					// a PTS prefix that ends after 3 or more columns of its
					// only/consistent lines is itself a well-formed PTS file;
					// no reader can reject it. What it may not do is invent
					// values: the result must be the complete cloud minus
					// whole attributes.
					if meshsnap.AttributeSubset(o.snap, want) == "" {
						d = ""
						res.Count("probe:pts-prefix-is-wellformed-file", 1)
					}
				}
				if d != "" {
					rep.Bytes = f.Bytes
					rep.Diff = d
					res.Violation = &sim.Violation{Class: fmt.Sprintf("%s/fabricated@%s", fname, reg),
						Msg: fmt.Sprintf("decoding %s cut at %d/%d (%s) delivered %s succeeded but is not %s: %s", f.Desc, cut, len(f.Bytes), reg, sch, what, d), Detail: rep}
					return res
				}
				res.Count("probe:ok-on-prefix:"+fname, 1)
			}
		}
		sigParts = append(sigParts, fmt.Sprint(cut))
	}
	res.Sig = fmt.Sprintf("%016x", choice.Hash64(string(f.Bytes)))
	res.Nontrivial = len(cuts) > 0
	_ = sigParts
	if opt.WantSample {
		res.Sample = map[string]any{"file": f.Desc, "len": len(f.Bytes), "cuts": len(cuts), "deliveries_per_cut": perCut,
			"head": string(bytes.ToValidUTF8(f.Bytes[:minInt(len(f.Bytes), 160)], []byte("?")))}
	}
	return res
}

func minInt(a, b int) int {
	if a < b {
		return a
	}
	return b
}
