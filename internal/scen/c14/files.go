package c14

import (
	"bytes"
	"compress/gzip"
	"encoding/binary"
	"fmt"
	"math"
	"strconv"
	"strings"

	"github.com/EliCDavis/polyform/formats/ply"
	"github.com/EliCDavis/polyform/formats/splat"
	"github.com/EliCDavis/polyform/formats/stl"
	"github.com/EliCDavis/polyform/modeling"

	"verif/internal/choice"
	"verif/internal/gen"
	"verif/internal/simio"
)

// Format kinds. The first three are produced by polyform's own writers; SPZ
// and PTS by the reference encoders below (polyform has no complete writer
// for them).
const (
	FPlyASCII = iota
	FPlyLE
	FPlyBE
	FSTL
	FSplat
	FSPZ
	FPTS
	// FPlyForeign: PLY layouts as other tools write them (double/uchar/int
	// properties, uint/int list counts, quads, extra header lines), from a
	// reference encoder in the harness, in any of the three encodings.
	FPlyForeign
	FKinds
)

var formatNames = []string{"ply-ascii", "ply-le", "ply-be", "stl", "splat", "spz", "pts", "ply-foreign"}

// file is one generated valid file.
type file struct {
	Format int
	Desc   string
	Bytes  []byte
	// write re-runs the producer into w (used to write through a crashing
	// simio.Disk); nil for reference encoders that just emit Bytes.
	write func(d *simio.Disk) error
	// headerLen: bytes [0,headerLen) are cut at every byte even for ASCII
	// formats; the rest of an ASCII file is cut at token boundaries.
	headerLen int
	ascii     bool
	// regions for classifying where a cut lands
	regions []region
}

type region struct {
	name string
	end  int // exclusive
}

func (f *file) regionOf(cut int) string {
	for _, r := range f.regions {
		if cut < r.end {
			return r.name
		}
	}
	return "tail"
}

func recoverErr(f func() error) (err error) {
	defer func() {
		if r := recover(); r != nil {
			err = fmt.Errorf("panic: %v", r)
		}
	}()
	return f()
}

// scale is the size knob of the current file: 1 = small (every cut is
// enumerated), larger = a file that crosses buffer boundaries of the readers
// (4 KiB bufio, 64 KiB scanner tokens, 4096-record blocks), whose cuts are
// enumerated around those boundaries and sampled elsewhere.
var scale = 1

// genFile draws one valid file.
func genFile(c choice.Chooser) (*file, error) {
	scale = 1
	switch c.Intn("file:size", 40) {
	case 37, 38:
		scale = 30
	case 39:
		scale = 700
	}
	format := c.Intn("file:format", FKinds)
	switch format {
	case FPlyASCII, FPlyLE, FPlyBE:
		return genPly(c, format)
	case FSTL:
		return genSTL(c)
	case FSplat:
		return genSplat(c)
	case FSPZ:
		return genSPZ(c)
	case FPlyForeign:
		return genPlyForeign(c)
	default:
		return genPTS(c)
	}
}

// ------------------------------------------------------------ foreign PLY encoder

type plyProp struct {
	name string
	typ  string // float double uchar int
}

func putScalar(buf *bytes.Buffer, ascii bool, order binary.ByteOrder, typ string, v float64) {
	if ascii {
		switch typ {
		case "float", "double":
			buf.WriteString(strconv.FormatFloat(v, 'g', -1, 64))
		default:
			buf.WriteString(strconv.Itoa(int(v)))
		}
		return
	}
	switch typ {
	case "float":
		var b [4]byte
		order.PutUint32(b[:], math.Float32bits(float32(v)))
		buf.Write(b[:])
	case "double":
		var b [8]byte
		order.PutUint64(b[:], math.Float64bits(v))
		buf.Write(b[:])
	case "uchar":
		buf.WriteByte(byte(int(v)))
	case "int", "uint":
		var b [4]byte
		order.PutUint32(b[:], uint32(int32(v)))
		buf.Write(b[:])
	}
}

func genPlyForeign(c choice.Chooser) (*file, error) {
	enc := c.Intn("fply:enc", 3) // 0 ascii 1 le 2 be
	ascii := enc == 0
	var order binary.ByteOrder = binary.LittleEndian
	encName := []string{"ascii", "binary_little_endian", "binary_big_endian"}[enc]
	if enc == 2 {
		order = binary.BigEndian
	}
	posType := []string{"float", "double"}[c.Intn("fply:postype", 2)]
	props := []plyProp{{"x", posType}, {"y", posType}, {"z", posType}}
	if choice.Bool(c, "fply:normals") {
		props = append(props, plyProp{"nx", "float"}, plyProp{"ny", "float"}, plyProp{"nz", "float"})
	}
	if choice.Bool(c, "fply:colors") {
		props = append(props, plyProp{"red", "uchar"}, plyProp{"green", "uchar"}, plyProp{"blue", "uchar"})
		if choice.Bool(c, "fply:alpha") {
			props = append(props, plyProp{"alpha", "uchar"})
		}
	}
	for i := c.Intn("fply:extras", 3); i > 0; i-- {
		props = append(props, plyProp{fmt.Sprintf("q%d", i), []string{"float", "double", "int", "uchar"}[c.Intn("fply:extratype", 4)]})
	}
	nv := 1 + c.Intn("fply:verts", 8*minI(scale, 30))
	faces := choice.Bool(c, "fply:faces")
	nf := 0
	countType, indexType, listName := "uchar", "int", "vertex_indices"
	uv := false
	if faces {
		nf = 1 + c.Intn("fply:nfaces", 5*minI(scale, 30))
		countType = []string{"uchar", "uint", "int"}[c.Intn("fply:counttype", 3)]
		indexType = []string{"int", "uint"}[c.Intn("fply:indextype", 2)]
		listName = []string{"vertex_indices", "vertex_index"}[c.Intn("fply:listname", 2)]
		uv = c.Intn("fply:uv", 3) == 2
	}
	nl := "\n"
	if ascii && c.Intn("fply:crlf", 4) == 3 {
		nl = "\r\n"
	}
	var hdr bytes.Buffer
	hdr.WriteString("ply" + nl + "format " + encName + " 1.0" + nl)
	if choice.Bool(c, "fply:comment") {
		hdr.WriteString("comment made by another tool" + nl)
	}
	if c.Intn("fply:objinfo", 3) == 2 {
		hdr.WriteString("obj_info generated" + nl)
	}
	fmt.Fprintf(&hdr, "element vertex %d%s", nv, nl)
	for _, p := range props {
		fmt.Fprintf(&hdr, "property %s %s%s", p.typ, p.name, nl)
	}
	if faces {
		fmt.Fprintf(&hdr, "element face %d%s", nf, nl)
		fmt.Fprintf(&hdr, "property list %s %s %s%s", countType, indexType, listName, nl)
		if uv {
			fmt.Fprintf(&hdr, "property list uchar float texcoord%s", nl)
		}
	}
	hdr.WriteString("end_header" + nl)
	var body bytes.Buffer
	for v := 0; v < nv; v++ {
		for i, p := range props {
			val := gen.Float(c, "fply:val")
			if p.typ == "uchar" {
				val = float64(c.Intn("fply:byte", 256))
			} else if p.typ == "int" {
				val = float64(c.Intn("fply:int", 2000) - 1000)
			}
			putScalar(&body, ascii, order, p.typ, val)
			if ascii {
				if i < len(props)-1 {
					body.WriteByte(' ')
				} else {
					body.WriteString(nl)
				}
			}
		}
	}
	vertexEnd := hdr.Len() + body.Len()
	for f := 0; f < nf; f++ {
		k := 3
		if c.Intn("fply:quad", 4) == 3 {
			k = 4
		}
		putScalar(&body, ascii, order, countType, float64(k))
		for i := 0; i < k; i++ {
			if ascii {
				body.WriteByte(' ')
			}
			putScalar(&body, ascii, order, indexType, float64(c.Intn("fply:idx", nv)))
		}
		if uv {
			if ascii {
				body.WriteByte(' ')
			}
			putScalar(&body, ascii, order, "uchar", float64(2*k))
			for i := 0; i < 2*k; i++ {
				if ascii {
					body.WriteByte(' ')
				}
				putScalar(&body, ascii, order, "float", float64(c.Intn("fply:uvval", 9))/8)
			}
		}
		if ascii && (f < nf-1 || c.Intn("fply:nofinalnl", 4) != 3) {
			body.WriteString(nl)
		}
	}
	b := append(hdr.Bytes(), body.Bytes()...)
	desc := fmt.Sprintf("ply-foreign %s pos=%s props=%d verts=%d faces=%d count=%s index=%s uv=%v", encName, posType, len(props), nv, nf, countType, indexType, uv)
	return &file{Format: FPlyForeign, Desc: desc, Bytes: b, headerLen: hdr.Len(), ascii: ascii,
		regions: []region{{"header", hdr.Len()}, {"vertex", vertexEnd}, {"face", len(b)}}}, nil
}

func plyFormat(f int) ply.Format {
	switch f {
	case FPlyASCII:
		return ply.ASCII
	case FPlyLE:
		return ply.BinaryLittleEndian
	}
	return ply.BinaryBigEndian
}

func genPly(c choice.Chooser, format int) (*file, error) {
	tri := choice.Bool(c, "ply:faces")
	spec := gen.MeshSpec{
		Topo:      modeling.PointTopology,
		MaxVerts:  12 * minI(scale, 30),
		MaxPrims:  6 * minI(scale, 30),
		V3:        []string{modeling.PositionAttribute},
		UnitNames: map[string]bool{modeling.ColorAttribute: true},
	}
	desc := "pointcloud"
	if tri {
		spec.Topo = modeling.TriangleTopology
		desc = "mesh"
		if choice.Bool(c, "ply:texcoord") {
			spec.Unwelded = true
			spec.V2 = append(spec.V2, modeling.TexCoordAttribute)
			desc += "+uv"
		}
	}
	if choice.Bool(c, "ply:normals") {
		spec.V3 = append(spec.V3, modeling.NormalAttribute)
		desc += "+normals"
	}
	if choice.Bool(c, "ply:colors") {
		spec.V3 = append(spec.V3, modeling.ColorAttribute)
		desc += "+colors"
	}
	if choice.Bool(c, "ply:scalar") {
		spec.V1 = append(spec.V1, "temperature")
		desc += "+scalar"
	}
	if choice.OneIn(c, "ply:splatattrs", 6) {
		spec.V1 = append(spec.V1, modeling.OpacityAttribute)
		spec.V3 = append(spec.V3, modeling.ScaleAttribute, modeling.FDCAttribute)
		spec.V4 = append(spec.V4, modeling.RotationAttribute)
		desc += "+splat"
	}
	m := gen.Mesh(c, spec)
	pf := plyFormat(format)
	write := func(d *simio.Disk) error {
		return recoverErr(func() error { return ply.Write(d, m, pf) })
	}
	d := simio.NewDisk(-1, false)
	if err := write(d); err != nil {
		return nil, err
	}
	b := d.Bytes()
	hl := bytes.Index(b, []byte("end_header\n"))
	if hl < 0 {
		return nil, fmt.Errorf("no end_header in written ply")
	}
	hl += len("end_header\n")
	f := &file{Format: format, Desc: formatNames[format] + " " + desc, Bytes: b, write: write, headerLen: hl, ascii: format == FPlyASCII}
	f.regions = []region{{"header", hl}}
	// vertex/face boundary
	if format == FPlyASCII {
		// vertex section = AttributeLength lines after the header
		pos := hl
		for i := 0; i < m.AttributeLength() && pos < len(b); i++ {
			nl := bytes.IndexByte(b[pos:], '\n')
			if nl < 0 {
				pos = len(b)
				break
			}
			pos += nl + 1
		}
		f.regions = append(f.regions, region{"vertex", pos})
	} else {
		// faces are fixed-size records at the end
		faceBytes := 0
		if tri {
			per := 13
			if m.HasFloat2Attribute(modeling.TexCoordAttribute) {
				per = 38
			}
			faceBytes = per * m.PrimitiveCount()
		}
		f.regions = append(f.regions, region{"vertex", len(b) - faceBytes})
	}
	f.regions = append(f.regions, region{"face", len(b)})
	return f, nil
}

func genSTL(c choice.Chooser) (*file, error) {
	spec := gen.MeshSpec{Topo: modeling.TriangleTopology, MaxVerts: 9, MaxPrims: 6 * scale, V3: []string{modeling.PositionAttribute}}
	desc := "stl"
	if choice.Bool(c, "stl:normals") {
		spec.V3 = append(spec.V3, modeling.NormalAttribute)
		desc += "+normals"
	}
	m := gen.Mesh(c, spec)
	write := func(d *simio.Disk) error {
		return recoverErr(func() error { return stl.WriteMesh(d, m) })
	}
	d := simio.NewDisk(-1, false)
	if err := write(d); err != nil {
		return nil, err
	}
	b := d.Bytes()
	return &file{Format: FSTL, Desc: desc, Bytes: b, write: write,
		regions: []region{{"header", 80}, {"count", 84}, {"triangles", len(b)}}}, nil
}

func genSplat(c choice.Chooser) (*file, error) {
	spec := gen.MeshSpec{Topo: modeling.PointTopology, MaxVerts: 6 * minI(scale, 60),
		V1: []string{modeling.OpacityAttribute},
		V3: []string{modeling.PositionAttribute, modeling.ScaleAttribute, modeling.FDCAttribute},
		V4: []string{modeling.RotationAttribute}, UnitNames: map[string]bool{modeling.RotationAttribute: true}}
	m := gen.Mesh(c, spec)
	write := func(d *simio.Disk) error {
		return recoverErr(func() error { return splat.Write(d, m) })
	}
	d := simio.NewDisk(-1, false)
	if err := write(d); err != nil {
		return nil, err
	}
	b := d.Bytes()
	return &file{Format: FSplat, Desc: "splat", Bytes: b, write: write, regions: []region{{"records", len(b)}}}, nil
}

// ------------------------------------------------------------ SPZ encoder

func floatToHalf(f float32) uint16 {
	b := math.Float32bits(f)
	sign := uint16((b >> 16) & 0x8000)
	exp := int((b>>23)&0xff) - 127 + 15
	man := b & 0x7fffff
	if exp <= 0 {
		return sign
	}
	if exp >= 31 {
		return sign | 0x7bff
	}
	return sign | uint16(exp<<10) | uint16(man>>13)
}

// genSPZ is a small reference encoder of the Niantic SPZ container: gzip of
// header(16) positions alphas colors scales rotations sh.
func genSPZ(c choice.Chooser) (*file, error) {
	version := 2 - c.Intn("spz:v1", 2) // 2 first
	shDegree := c.Intn("spz:sh", 4)
	n := 1 + c.Intn("spz:n", 5*minI(scale, 60))
	fracBits := 6 + c.Intn("spz:frac", 7)
	shDim := []int{0, 3, 8, 15}[shDegree]
	var raw bytes.Buffer
	hdr := struct {
		Magic, Version, NumPoints       uint32
		ShDegree, FracBits, Flags, Resv uint8
	}{0x5053474e, uint32(version), uint32(n), uint8(shDegree), uint8(fracBits), uint8(c.Intn("spz:flags", 2)), 0}
	binary.Write(&raw, binary.LittleEndian, hdr)
	rb := func(k int) {
		for i := 0; i < k; i++ {
			raw.WriteByte(byte(c.Intn("spz:byte", 256)))
		}
	}
	if version == 1 {
		for i := 0; i < n*3; i++ {
			h := floatToHalf(float32(gen.Float(c, "spz:pos")))
			raw.WriteByte(byte(h))
			raw.WriteByte(byte(h >> 8))
		}
	} else {
		rb(n * 9)
	}
	rb(n)             // alphas
	rb(n * 3)         // colors
	rb(n * 3)         // scales
	rb(n * 3)         // rotations
	rb(n * 3 * shDim) // sh
	level := []int{gzip.DefaultCompression, gzip.NoCompression, gzip.BestSpeed, gzip.BestCompression}[c.Intn("spz:gzlevel", 4)]
	var out bytes.Buffer
	// a gzip file is a series of members (RFC 1952): now and then the
	// payload is split over two or three
	members := 1
	if c.Intn("spz:members", 5) == 4 {
		members = 2 + c.Intn("spz:nmembers", 2)
	}
	payload := raw.Bytes()
	var memberEnds []int
	for m := 0; m < members; m++ {
		lo, hi := len(payload)*m/members, len(payload)*(m+1)/members
		zw, _ := gzip.NewWriterLevel(&out, level)
		zw.Write(payload[lo:hi])
		zw.Close()
		memberEnds = append(memberEnds, out.Len())
	}
	b := out.Bytes()
	regs := []region{{"gzip-header", 10}}
	for i, e := range memberEnds {
		if i < len(memberEnds)-1 {
			regs = append(regs, region{"gzip-body", e - 1}, region{"gzip-member-boundary", e + 1})
		}
	}
	regs = append(regs, region{"gzip-body", len(b) - 8}, region{"gzip-trailer", len(b)})
	return &file{Format: FSPZ, Desc: fmt.Sprintf("spz v%d sh%d n=%d gz=%d raw=%d members=%d", version, shDegree, n, level, raw.Len(), members), Bytes: b,
		regions: regs}, nil
}

// ------------------------------------------------------------ PTS encoder

func genPTS(c choice.Chooser) (*file, error) {
	cols := []int{3, 4, 7}[c.Intn("pts:cols", 3)]
	n := 1 + c.Intn("pts:n", 8*minI(scale, 30))
	crlf := choice.OneIn(c, "pts:crlf", 5)
	nl := "\n"
	if crlf {
		nl = "\r\n"
	}
	var sb strings.Builder
	sb.WriteString(strconv.Itoa(n) + nl)
	hl := sb.Len()
	for i := 0; i < n; i++ {
		toks := []string{}
		for k := 0; k < 3; k++ {
			toks = append(toks, strconv.FormatFloat(gen.Float(c, "pts:pos"), 'f', -1, 64))
		}
		if cols >= 4 {
			toks = append(toks, strconv.Itoa(c.Intn("pts:int", 256)))
		}
		if cols >= 7 {
			for k := 0; k < 3; k++ {
				toks = append(toks, strconv.Itoa(c.Intn("pts:rgb", 256)))
			}
		}
		sb.WriteString(strings.Join(toks, " "))
		if i < n-1 || !choice.OneIn(c, "pts:nofinalnl", 4) {
			sb.WriteString(nl)
		}
	}
	b := []byte(sb.String())
	return &file{Format: FPTS, Desc: fmt.Sprintf("pts cols=%d n=%d crlf=%v", cols, n, crlf), Bytes: b, ascii: true, headerLen: 0,
		regions: []region{{"count-line", hl}, {"points", len(b)}}}, nil
}

// cutPoints enumerates the crash points of a file: every byte offset
// 0..len-1 for binary data and ASCII headers, every token boundary for ASCII
// bodies.
func minI(a, b int) int {
	if a < b {
		return a
	}
	return b
}

// LargeLimit: files longer than this are not cut at every position.
const LargeLimit = 6000

// interesting reports whether cut p of a large file is enumerated: near the
// start and the end, around multiples of the readers' buffer sizes (absolute
// and relative to the end of the header) and around region boundaries.
func (f *file) interesting(p int) bool {
	n := len(f.Bytes)
	if p < 400 || p > n-400 {
		return true
	}
	body := f.headerLen
	if len(f.regions) > 0 {
		body = f.regions[0].end
	}
	for _, r := range f.regions {
		if d := p - r.end; d > -48 && d < 48 {
			return true
		}
	}
	for _, base := range []int{0, body, 84} {
		for _, m := range []int{4096, 65536, 50 * 4096, 32 * 4096} {
			if d := (p - base) % m; p >= base && (d < 40 || d > m-40) {
				return true
			}
		}
	}
	return false
}

func (f *file) cutPoints() []int {
	b := f.Bytes
	var cuts []int
	isSpace := func(x byte) bool { return x == ' ' || x == '\n' || x == '\r' || x == '\t' }
	large := len(b) > LargeLimit
	for p := 0; p < len(b); p++ {
		if large && !f.interesting(p) && p%97 != 13 {
			continue
		}
		if !f.ascii || p < f.headerLen || p == 0 {
			cuts = append(cuts, p)
			continue
		}
		if isSpace(b[p-1]) != isSpace(b[p]) {
			cuts = append(cuts, p)
		}
	}
	return cuts
}
