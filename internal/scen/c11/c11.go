//go:build verif

// Package c11 decides property C11: node outputs are never stale, nodes
// re-execute only when something they depend on changed, and versions count
// executions. Sequential history simulation against a from-scratch evaluator;
// the order in which a node enumerates its dependencies (Go map order in the
// real program) is a seeded choice.
package c11

import (
	"flag"
	"fmt"
	"strconv"
	"strings"

	"github.com/EliCDavis/polyform/generator/parameter"
	"github.com/EliCDavis/polyform/nodes"

	"verif/internal/choice"
	"verif/internal/seams"
	"verif/internal/sim"
)

type Scenario struct{}

func (Scenario) Prop() string    { return "C11" }
func (Scenario) Name() string    { return "node-histories" }
func (Scenario) Isolated() bool  { return false }
func (Scenario) NeedsRace() bool { return false }

// ------------------------------------------------------------ harness processors

type probe struct {
	execLog *[]int
}

func in(o nodes.NodeOutput[string]) string {
	if o == nil {
		return "_"
	}
	return o.Value()
}

type BinData struct {
	A, B nodes.NodeOutput[string]
	ID   int
	Log  *[]int
}

// A processor fails (returns a value together with an error) when one of its
// inputs carries the failure marker '!': nodes that start failing after they
// have succeeded are part of the property's histories too.
func outcome(id int, s string) (string, error) {
	if strings.Contains(s[strings.IndexAny(s, "([")+1:], "?") {
		// the marker '?' makes the processor panic (the edit server recovers
		// around every artifact request and keeps serving)
		panic(fmt.Errorf("node %d cannot handle its input", id))
	}
	if strings.Contains(s[strings.IndexAny(s, "([")+1:], "!") {
		return fmt.Sprintf("n%d!failed", id), fmt.Errorf("node %d rejects its input", id)
	}
	return s, nil
}

func (d BinData) Process() (string, error) {
	*d.Log = append(*d.Log, d.ID)
	return outcome(d.ID, fmt.Sprintf("n%d(%s|%s)", d.ID, in(d.A), in(d.B)))
}

type TriData struct {
	A, B, C nodes.NodeOutput[string]
	ID      int
	Log     *[]int
}

func (d TriData) Process() (string, error) {
	*d.Log = append(*d.Log, d.ID)
	return outcome(d.ID, fmt.Sprintf("n%d(%s|%s|%s)", d.ID, in(d.A), in(d.B), in(d.C)))
}

type ArrData struct {
	Values []nodes.NodeOutput[string]
	ID     int
	Log    *[]int
}

func (d ArrData) Process() (string, error) {
	*d.Log = append(*d.Log, d.ID)
	var p []string
	for _, v := range d.Values {
		p = append(p, in(v))
	}
	return outcome(d.ID, fmt.Sprintf("n%d[%s]", d.ID, strings.Join(p, ",")))
}

type MixData struct {
	A      nodes.NodeOutput[string]
	Values []nodes.NodeOutput[string]
	ID     int
	Log    *[]int
}

func (d MixData) Process() (string, error) {
	*d.Log = append(*d.Log, d.ID)
	var p []string
	for _, v := range d.Values {
		p = append(p, in(v))
	}
	return outcome(d.ID, fmt.Sprintf("n%d(%s|[%s])", d.ID, in(d.A), strings.Join(p, ",")))
}

// ------------------------------------------------------------ model

const (
	kBin = iota
	kTri
	kArr
	kMix
)

var kindName = []string{"Bin", "Tri", "Arr", "Mix"}
var scalarPorts = [][]string{{"A", "B"}, {"A", "B", "C"}, {}, {"A"}}
var hasArray = []bool{false, false, true, true}

// ref: >=0 struct node index; <0 source -(s+1); none = unconnected
const none = 1 << 20

// JoinSliceData turns a slice-valued source into the string the processors read.
type JoinSliceData struct {
	In nodes.NodeOutput[[]string]
}

func (d JoinSliceData) Process() (string, error) { return strings.Join(d.In.Value(), ""), nil }

// alertReader is a subscriber that does something (reads a node) when alerted.
type alertReader func()

func (a alertReader) Alert(version int, state nodes.NodeState) { a() }

type mnode struct {
	kind   int
	scalar []int // per scalarPorts entry
	arr    []int
	dirty  bool
	execs  int
}

type world struct {
	srcVal  []string
	srcKind []int // 0 parameter.Value, 1 nodes.ValueNode, 2 nodes.FuncValue over a function that reads cell[s]
	cell    []*string
	// kind 3: a value node holding a SLICE (reference semantics), read
	// through an adapter node that joins it; an update edits the caller's
	// slice in place and sets it again
	slices   []*nodes.ValueNode[[]string]
	sliceBuf [][]string
	adapters []*nodes.Struct[string, JoinSliceData]
	nodes   []*mnode

	// real side
	params []*parameter.Value[string]
	values []*nodes.ValueNode[string]
	real   []nodes.Node
	val    []func() string
	outRef []func() nodes.NodeOutputReference
	log    []int
}

func (w *world) evalRef(r int) string {
	if r == none {
		return "_"
	}
	if r < 0 {
		return w.srcVal[-r-1]
	}
	return w.eval(r)
}

func (w *world) eval(i int) string {
	n := w.nodes[i]
	var s []string
	for _, r := range n.scalar {
		s = append(s, w.evalRef(r))
	}
	var a []string
	for _, r := range n.arr {
		a = append(a, w.evalRef(r))
	}
	var v string
	switch n.kind {
	case kBin, kTri:
		v = fmt.Sprintf("n%d(%s)", i, strings.Join(s, "|"))
	case kArr:
		v = fmt.Sprintf("n%d[%s]", i, strings.Join(a, ","))
	default:
		v = fmt.Sprintf("n%d(%s|[%s])", i, s[0], strings.Join(a, ","))
	}
	v, _ = outcome(i, v)
	return v
}

// panics: does evaluating node i from scratch panic (a source in its cone
// carries the marker '?')?
func (w *world) panics(i int) bool {
	n := w.nodes[i]
	for _, r := range append(append([]int{}, n.scalar...), n.arr...) {
		if r == none {
			continue
		}
		if r < 0 {
			if strings.Contains(w.srcVal[-r-1], "?") {
				return true
			}
		} else if w.panics(r) {
			return true
		}
	}
	return false
}

// dependsOn: does node i transitively depend on ref target t?
func (w *world) dependsOn(i, t int) bool {
	n := w.nodes[i]
	for _, r := range append(append([]int{}, n.scalar...), n.arr...) {
		if r == none {
			continue
		}
		if r == t {
			return true
		}
		if r >= 0 && w.dependsOn(r, t) {
			return true
		}
	}
	return false
}

func (w *world) markDependents(t int) {
	for i, n := range w.nodes {
		if w.dependsOn(i, t) {
			n.dirty = true
		}
	}
}

func (w *world) cone(i int, seen map[int]bool) {
	if seen[i] {
		return
	}
	seen[i] = true
	n := w.nodes[i]
	for _, r := range append(append([]int{}, n.scalar...), n.arr...) {
		if r != none && r >= 0 {
			w.cone(r, seen)
		}
	}
}

func (w *world) output(r int) nodes.NodeOutputReference {
	if r < 0 {
		s := -r - 1
		if w.srcKind[s] == 0 {
			return w.params[s].Out()
		}
		if w.srcKind[s] == 3 {
			return w.adapters[s].Out()
		}
		return w.values[s].Out()
	}
	return w.outRef[r]()
}

func refName(r int) string {
	switch {
	case r == none:
		return "nil"
	case r < 0:
		return fmt.Sprintf("src%d", -r-1)
	}
	return fmt.Sprintf("n%d", r)
}

// distance from node i down to the farthest source/updated thing
func (w *world) depth(i int) int {
	n := w.nodes[i]
	d := 0
	for _, r := range append(append([]int{}, n.scalar...), n.arr...) {
		if r == none {
			continue
		}
		x := 1
		if r >= 0 {
			x = 1 + w.depth(r)
		}
		if x > d {
			d = x
		}
	}
	return d
}

func (Scenario) Run(c choice.Chooser, opt sim.Options) (res sim.Result) {
	res = sim.Result{Evals: 0}
	w := &world{}
	// swarm knob: is "map order" permuted in this run?
	permute := c.Intn("run:permute", 4) != 0
	if permute {
		seams.SetMapOrder(c)
	} else {
		seams.SetMapOrder(nil)
	}
	defer seams.SetMapOrder(nil)
	callsBefore := seams.MapOrderCalls
	var hist []string
	violate := func(class, msg string) sim.Result {
		res.Violation = &sim.Violation{Class: class, Msg: msg, Detail: map[string]any{"history": hist, "map_order_permuted": permute}}
		res.Sig = fmt.Sprintf("%016x", choice.Hash64(strings.Join(hist, ";")))
		return res
	}
	pendingPoison := false
	defer func() {
		if r := recover(); r != nil {
			// A panic out of an update, re-wiring or observer call. If some
			// source holds (or is just receiving) a value that makes
			// processors panic, an implementation that evaluates eagerly
			// lets that panic out here just as the lazy one lets it out of
			// the read: how a panicking processor surfaces is not judged.
			// The history ends (the model cannot follow a half-applied
			// operation). With no such value around it is a crash.
			poisoned := pendingPoison
			for _, v := range w.srcVal {
				if strings.Contains(v, "?") {
					poisoned = true
				}
			}
			if poisoned {
				res.Count("fault:processor-panic-left-a-mutation-call", 1)
				res.Sig = fmt.Sprintf("%016x", choice.Hash64(strings.Join(hist, ";")))
				res.LogHash = res.Sig
				return
			}
			res = violate("panic", fmt.Sprintf("graph operation panicked: %v", r))
		}
	}()

	ns := 1 + c.Intn("g:sources", 5)
	for s := 0; s < ns; s++ {
		k := c.Intn("g:srckind", 2)
		if k == 1 && c.Intn("g:funcvalue", 3) == 2 {
			// a value node initialised from a function that reads its
			// environment (cell): evaluated once, however often it is read
			k = 2
		}
		if k == 1 && c.Intn("g:slicevalue", 4) == 3 {
			k = 3
		}
		w.srcKind = append(w.srcKind, k)
		w.cell = append(w.cell, nil)
		w.slices = append(w.slices, nil)
		w.sliceBuf = append(w.sliceBuf, nil)
		w.adapters = append(w.adapters, nil)
		v := fmt.Sprintf("s%d.0", s)
		if k == 3 {
			buf := []string{v}
			sv := nodes.Value(buf)
			w.slices[s], w.sliceBuf[s] = sv, buf
			w.adapters[s] = &nodes.Struct[string, JoinSliceData]{Data: JoinSliceData{In: sv.Out()}}
			w.srcVal = append(w.srcVal, v)
			w.params = append(w.params, nil)
			w.values = append(w.values, nil)
			res.Count("probe:slice-valued-source", 1)
			continue
		}
		if c.Intn("g:twin", 3) == 2 {
			// look-alike sources: same name, same value, same version
			v = []string{"a", "b"}[c.Intn("g:twinval", 2)]
		}
		if k == 0 && c.Intn("g:cli", 4) == 3 {
			// a parameter whose value comes from a command-line flag until
			// the first update: default < flag < applied value
			pv := &parameter.Value[string]{Name: "S", DefaultValue: "default-" + v, CLI: &parameter.CliConfig[string]{FlagName: fmt.Sprintf("s%d", s), Usage: "u"}}
			fs := flag.NewFlagSet("c11", flag.ContinueOnError)
			pv.InitializeForCLI(fs)
			if err := fs.Parse([]string{fmt.Sprintf("-s%d", s), v}); err != nil {
				panic(err)
			}
			w.srcVal = append(w.srcVal, v)
			w.params = append(w.params, pv)
			w.values = append(w.values, nil)
			res.Count("probe:cli-flag-source", 1)
			continue
		}
		w.srcVal = append(w.srcVal, v)
		if k == 0 {
			w.params = append(w.params, &parameter.Value[string]{Name: "S", DefaultValue: v})
			w.values = append(w.values, nil)
		} else if k == 2 {
			cell := new(string)
			*cell = v
			w.cell[s] = cell
			w.params = append(w.params, nil)
			w.values = append(w.values, nodes.FuncValue(func() string { return *cell }))
			res.Count("probe:funcvalue-source", 1)
		} else {
			w.params = append(w.params, nil)
			w.values = append(w.values, nodes.Value(v))
		}
	}
	maxNodes, maxHist := 8, 41
	if opt.Tier == "thorough" {
		maxNodes, maxHist = 14, 101 // deeper bounds
	}
	nn := 1 + c.Intn("g:nodes", maxNodes)
	pickRef := func(i int, allowNone bool) int {
		n := i + ns
		if allowNone {
			n++
		}
		k := c.Intn("g:ref", n)
		switch {
		case k < ns:
			return -(k + 1)
		case k < ns+i:
			return k - ns
		}
		return none
	}
	for i := 0; i < nn; i++ {
		kind := c.Intn("g:kind", 4)
		m := &mnode{kind: kind, dirty: true}
		for range scalarPorts[kind] {
			m.scalar = append(m.scalar, pickRef(i, true))
		}
		if hasArray[kind] {
			for k := c.Intn("g:arrlen", 4); k > 0; k-- {
				m.arr = append(m.arr, pickRef(i, false))
			}
		}
		w.nodes = append(w.nodes, m)
		// build the real node
		so := func(r int) nodes.NodeOutput[string] {
			if r == none {
				return nil
			}
			return w.output(r).(nodes.NodeOutput[string])
		}
		var arr []nodes.NodeOutput[string]
		for _, r := range m.arr {
			arr = append(arr, so(r))
		}
		switch kind {
		case kBin:
			n := &nodes.Struct[string, BinData]{Data: BinData{A: so(m.scalar[0]), B: so(m.scalar[1]), ID: i, Log: &w.log}}
			w.real = append(w.real, n)
			w.val = append(w.val, n.Value)
			w.outRef = append(w.outRef, func() nodes.NodeOutputReference { return n.Out() })
		case kTri:
			n := &nodes.Struct[string, TriData]{Data: TriData{A: so(m.scalar[0]), B: so(m.scalar[1]), C: so(m.scalar[2]), ID: i, Log: &w.log}}
			w.real = append(w.real, n)
			w.val = append(w.val, n.Value)
			w.outRef = append(w.outRef, func() nodes.NodeOutputReference { return n.Out() })
		case kArr:
			n := &nodes.Struct[string, ArrData]{Data: ArrData{Values: arr, ID: i, Log: &w.log}}
			w.real = append(w.real, n)
			w.val = append(w.val, n.Value)
			w.outRef = append(w.outRef, func() nodes.NodeOutputReference { return n.Out() })
		default:
			n := &nodes.Struct[string, MixData]{Data: MixData{A: so(m.scalar[0]), Values: arr, ID: i, Log: &w.log}}
			w.real = append(w.real, n)
			w.val = append(w.val, n.Value)
			w.outRef = append(w.outRef, func() nodes.NodeOutputReference { return n.Out() })
		}
	}
	// Subscribers: a source alerts whoever subscribed to it when it is
	// updated; a subscriber that reads a node from inside the alert is a read
	// interleaved with the update (the edit server's hub subscribes this way).
	// What such a read returns is not judged (the update is in flight); what
	// it executes is judged with the update, and every read after the update
	// returned must be fresh.
	var subs []string
	reentrant := false // a subscriber read a node during the current operation
	for s := 0; s < ns; s++ {
		if c.Intn("g:subscriber", 4) != 3 {
			continue
		}
		target := c.Intn("g:subnode", nn)
		a := alertReader(func() {
			defer func() { recover() }()
			res.Count("fault:subscriber-reads-a-node-inside-the-alert", 1)
			reentrant = true
			w.val[target]()
		})
		switch w.srcKind[s] {
		case 0:
			w.params[s].AddSubscription(a)
		case 3:
			w.slices[s].AddSubscription(a)
		default:
			w.values[s].AddSubscription(a)
		}
		subs = append(subs, fmt.Sprintf("src%d->read n%d", s, target))
	}
	var shape []string
	if len(subs) > 0 {
		shape = append(shape, "subscribers{"+strings.Join(subs, " ")+"}")
	}
	for i, m := range w.nodes {
		var p []string
		for k, r := range m.scalar {
			p = append(p, scalarPorts[m.kind][k]+"="+refName(r))
		}
		var a []string
		for _, r := range m.arr {
			a = append(a, refName(r))
		}
		if hasArray[m.kind] {
			p = append(p, "Values=["+strings.Join(a, ",")+"]")
		}
		shape = append(shape, fmt.Sprintf("n%d:%s{%s}", i, kindName[m.kind], strings.Join(p, " ")))
	}
	hist = append(hist, "graph "+strings.Join(shape, " "))

	// after every operation: versions account for executions exactly
	checkVersions := func(what string) *sim.Result {
		for i, m := range w.nodes {
			if v := w.real[i].Version(); v != m.execs {
				r := violate("version-accounting", fmt.Sprintf("after %s: node n%d executed %d times but reports version %d", what, i, m.execs, v))
				return &r
			}
		}
		return nil
	}
	nontrivial := false
	changedSinceRead := false
	serial := 1
ops:
	for more := true; more; more = len(hist) < maxHist && c.Intn("more", 16) != 0 {
		kind := choice.Pick(c, "op:kind", []int{12, 8, 4, 4, 4, 2, 2, 2, 1})
		res.Evals++
		res.Steps++
		w.log = w.log[:0]
		reentrant = false
		updated := 0 // the source this operation updates, as a reference (-(s+1)); 0: none
		var what string
		// The current value of a function-initialised source is what the
		// source itself reports (an implementation may call the function at
		// construction or at the first read; either way once): the
		// from-scratch evaluation uses that reading. If it moves without an
		// update, everything computed from the earlier reading is stale.
		for s := range w.srcKind {
			if w.srcKind[s] == 2 {
				w.srcVal[s] = w.values[s].Value()
			}
		}
		switch kind {
		case 8: // the environment a function-initialised source once read changes
			var fs []int
			for s := range w.srcKind {
				if w.srcKind[s] == 2 {
					fs = append(fs, s)
				}
			}
			if len(fs) == 0 {
				continue
			}
			s := fs[c.Intn("op:src", len(fs))]
			*w.cell[s] = fmt.Sprintf("s%d.env%d", s, serial)
			serial++
			what = fmt.Sprintf("environment of function-initialised src%d changes", s)
			hist = append(hist, what)
			res.Count("fault:environment-of-funcvalue-source-changes", 1)
		case 0: // read a node
			i := c.Intn("op:node", nn)
			what = fmt.Sprintf("read n%d", i)
			mustPanic := w.panics(i)
			want := ""
			if !mustPanic {
				want = w.eval(i)
			}
			got, panicked := "", false
			func() {
				defer func() {
					if recover() != nil {
						panicked = true
					}
				}()
				got = w.val[i]()
			}()
			if panicked {
				got = "PANIC"
				res.Count("fault:processor-panics", 1)
			}
			hist = append(hist, fmt.Sprintf("%s -> %s executed=%v", what, got, w.log))
			res.Count("op:read", 1)
			// The property does not say how a panicking processor surfaces
			// (the pinned tree lets the panic through; recovering it into
			// an error value would be just as legitimate): when the
			// from-scratch evaluation panics, neither the outcome nor the
			// value of this read is judged. A read that panics although
			// nothing in its cone does is a violation.
			if panicked && !mustPanic {
				return violate("stale-read", fmt.Sprintf("%s panicked although no processor in its cone rejects its current input (a fault that has been cleared is still served)", what))
			}
			if changedSinceRead && w.depth(i) >= 2 {
				nontrivial = true
			}
			changedSinceRead = false
			if !panicked && !mustPanic && got != want {
				return violate("stale-read", fmt.Sprintf("%s returned %q, evaluating the current graph from scratch gives %q", what, got, want))
			}
			res.Count("probe:executions", len(w.log))
			if len(w.log) == 0 {
				res.Count("probe:read-served-from-cache", 1)
			}
		case 1: // update a source
			s := c.Intn("op:src", ns)
			same := c.Intn("op:same", 5) == 4
			v := w.srcVal[s]
			if !same {
				v = fmt.Sprintf("s%d.%d", s, serial)
				switch c.Intn("op:poison", 12) {
				case 10:
					v += "!" // downstream processors fail on this value
					res.Count("fault:processor-returns-error", 1)
				case 11:
					v += "?" // downstream processors panic on this value
				case 8, 9:
					// a value another source may hold as well (look-alikes)
					v = []string{"a", "b"}[c.Intn("op:twinval", 2)]
				case 7:
					// back to the parameter's declared default
					if w.srcKind[s] == 0 {
						v = w.params[s].DefaultValue
					}
				}
				serial++
			}
			what = fmt.Sprintf("update src%d:=%s", s, v)
			pendingPoison = strings.Contains(v, "?")
			if w.srcKind[s] == 0 {
				if _, err := w.params[s].ApplyMessage([]byte(strconv.Quote(v))); err != nil {
					return violate("panic", "ApplyMessage failed: "+err.Error())
				}
			} else if w.srcKind[s] == 3 {
				// the caller edits its own slice in place and hands the
				// same slice over again
				w.sliceBuf[s][0] = v
				w.slices[s].Set(w.sliceBuf[s])
			} else {
				w.values[s].Set(v)
			}
			w.srcVal[s] = v
			pendingPoison = false
			updated = -(s + 1)
			w.markDependents(-(s + 1))
			changedSinceRead = true
			hist = append(hist, what)
			res.Count("op:update", 1)
			if same {
				res.Count("op:update-same-value", 1)
			}
		case 2: // re-wire a scalar input
			i := c.Intn("op:node", nn)
			m := w.nodes[i]
			if len(m.scalar) == 0 {
				continue
			}
			p := c.Intn("op:port", len(m.scalar))
			r := pickRef(i, true)
			what = fmt.Sprintf("rewire n%d.%s:=%s", i, scalarPorts[m.kind][p], refName(r))
			var o nodes.NodeOutputReference
			if r != none {
				o = w.output(r)
			}
			w.real[i].SetInput(scalarPorts[m.kind][p], nodes.Output{NodeOutput: o})
			m.scalar[p] = r
			m.dirty = true
			w.markDependents(i)
			changedSinceRead = true
			hist = append(hist, what)
			res.Count("op:rewire", 1)
		case 3: // append to an array input
			i := c.Intn("op:node", nn)
			m := w.nodes[i]
			if !hasArray[m.kind] || len(m.arr) >= 12 {
				continue
			}
			r := pickRef(i, false)
			what = fmt.Sprintf("append n%d.Values+=%s", i, refName(r))
			w.real[i].SetInput(fmt.Sprintf("Values.%d", len(m.arr)), nodes.Output{NodeOutput: w.output(r)})
			m.arr = append(m.arr, r)
			m.dirty = true
			w.markDependents(i)
			changedSinceRead = true
			hist = append(hist, what)
			res.Count("op:array-append", 1)
		case 4: // remove from an array input
			i := c.Intn("op:node", nn)
			m := w.nodes[i]
			if !hasArray[m.kind] || len(m.arr) == 0 {
				continue
			}
			k := c.Intn("op:index", len(m.arr))
			what = fmt.Sprintf("remove n%d.Values[%d]", i, k)
			w.real[i].SetInput(fmt.Sprintf("Values.%d", k), nodes.Output{})
			m.arr = append(append([]int{}, m.arr[:k]...), m.arr[k+1:]...)
			m.dirty = true
			w.markDependents(i)
			changedSinceRead = true
			hist = append(hist, what)
			res.Count("op:array-remove", 1)
		case 6: // a rejected update: malformed message to a parameter source
			s := c.Intn("op:src", ns)
			if w.srcKind[s] != 0 {
				continue
			}
			msg := []string{"{", "5", "\"abc", "[1,2", "tru"}[c.Intn("op:badmsg", 5)]
			what = fmt.Sprintf("update src%d with malformed message %q", s, msg)
			vBefore := w.params[s].Version()
			_, err := w.params[s].ApplyMessage([]byte(msg))
			hist = append(hist, fmt.Sprintf("%s -> err=%v", what, err != nil))
			res.Count("fault:malformed-update", 1)
			if err == nil {
				// The property does not say that a parameter must reject
				// what it cannot parse strictly (a lenient decoder that
				// coerces 5 to "5" is not stale). The model cannot know
				// which value was taken: the history ends here, unjudged.
				res.Count("probe:malformed-update-accepted-history-ends", 1)
				break ops
			}
			if got := w.params[s].Value(); got != w.srcVal[s] {
				return violate("stale-read", fmt.Sprintf("after the rejected %s the parameter reads %q, it held %q", what, got, w.srcVal[s]))
			}
			if w.params[s].Version() != vBefore {
				// a version bump without a change would only cause needless
				// recomputation; tolerated by the permissive reading
				w.markDependents(-(s + 1))
			}
		case 7: // read a source directly
			s := c.Intn("op:src", ns)
			what = fmt.Sprintf("read src%d", s)
			var got string
			switch w.srcKind[s] {
			case 0:
				got = w.params[s].Value()
			case 3:
				got = strings.Join(w.slices[s].Value(), "")
			default:
				got = w.values[s].Value()
			}
			hist = append(hist, what+" -> "+got)
			if got != w.srcVal[s] {
				return violate("stale-read", fmt.Sprintf("%s returned %q, last value set is %q", what, got, w.srcVal[s]))
			}
		default: // look at state / version: must execute nothing
			i := c.Intn("op:node", nn)
			what = fmt.Sprintf("state n%d", i)
			st := w.real[i].State()
			_ = w.real[i].Version()
			_ = w.real[i].Dependencies()
			hist = append(hist, fmt.Sprintf("%s -> %v", what, st))
			res.Count("op:state", 1)
			if len(w.log) > 0 {
				// not forbidden as such: whether the executions were due is
				// judged below like anywhere else
				res.Count("probe:observer-call-executed-nodes", 1)
			}
			if st == nodes.Processed && w.nodes[i].dirty && w.real[i].Version() == 0 {
				return violate("stale-read", fmt.Sprintf("%s reports Processed for a node that never executed", what))
			}
		}
		// Executions are judged wherever they happen. The property says when a
		// node MAY execute (something it depends on, or its wiring, changed
		// since it last executed), not which call triggers it: an
		// implementation that recomputes eagerly inside an update or a
		// re-wiring is as legitimate as the lazy one of the pinned tree. The
		// model has already applied this operation's changes (dirty marks).
		seen := map[int]bool{}
		for _, x := range w.log {
			if seen[x] {
				return violate("spurious-recompute", fmt.Sprintf("%s executed node n%d twice", what, x))
			}
			seen[x] = true
			if !w.nodes[x].dirty {
				return violate("spurious-recompute", fmt.Sprintf("%s re-executed node n%d although nothing it depends on was updated or re-wired since it last executed", what, x))
			}
		}
		for x := range seen {
			if reentrant && updated != 0 && w.dependsOn(x, updated) {
				// Executed by a read from inside the alert of the very
				// update it depends on. The update is still in flight: an
				// implementation that pushes staleness notifies the nodes
				// between the source and this one after the subscriber that
				// read it (benign change C11-g1), so this execution may have
				// seen the old or the new value - it may even have failed on
				// a value the update has just replaced. It is not judged:
				// the version is taken as found and the node may execute
				// once more. Every read after the update returned is judged.
				w.nodes[x].execs = w.real[x].Version()
				w.nodes[x].dirty = true
				continue
			}
			if w.panics(x) {
				// started and aborted by the panic, or recovered by the
				// implementation: either way not judged; the node stays
				// due and its version is taken as found
				w.nodes[x].execs = w.real[x].Version()
				continue
			}
			w.nodes[x].dirty = false
			w.nodes[x].execs++
		}
		if kind != 0 && len(w.log) > 0 {
			res.Count("probe:executions-outside-reads", len(w.log))
		}
		if r := checkVersions(what); r != nil {
			return *r
		}
	}
	res.Count("fault:map-order-permutations", seams.MapOrderCalls-callsBefore)
	if permute {
		res.Count("runs:map-order-permuted", 1)
	}
	res.Sig = fmt.Sprintf("%016x", choice.Hash64(strings.Join(hist, ";")))
	res.LogHash = res.Sig
	res.Nontrivial = nontrivial
	if opt.WantSample {
		res.Sample = map[string]any{"history": hist, "map_order_permuted": permute}
	}
	return res
}
