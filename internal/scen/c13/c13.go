//go:build verif

// Package c13 decides property C13: concurrent UpdateParameter /
// ParameterData / Artifact calls on a real graph.Instance are linearizable,
// race free, crash free and make progress on every schedule.
package c13

import (
	"bytes"
	"encoding/json"
	"fmt"
	"io"
	"log"
	"net/http"
	"net/http/httptest"
	"regexp"
	"sort"
	"strconv"
	"strings"
	"time"

	"github.com/EliCDavis/polyform/generator"
	"github.com/EliCDavis/polyform/generator/artifact"
	"github.com/EliCDavis/polyform/generator/artifact/basics"
	"github.com/EliCDavis/polyform/generator/graph"
	"github.com/EliCDavis/polyform/generator/parameter"
	"github.com/EliCDavis/polyform/nodes"
	"github.com/EliCDavis/polyform/refutil"
	"github.com/EliCDavis/vector/vector3"
	"github.com/anishathalye/porcupine"

	"verif/internal/choice"
	"verif/internal/detsched"
	_ "verif/internal/seams" // canonical dependency order (map-order seam)
	"verif/internal/sim"
)

func init() {
	graph.VerifYield = func(site string) { detsched.Yield(site, 0) }
}

type Scenario struct{}

func (Scenario) Prop() string    { return "C13" }
func (Scenario) Name() string    { return "graph-clients" }
func (Scenario) Isolated() bool  { return true }
func (Scenario) NeedsRace() bool { return true }

// ServerScenario runs the same generated graphs, client plans and oracles,
// but every client call is a request served by the edit server's own
// handlers (generator/app_server_parameter.go, AppServer.ProducerEndpoint)
// around the instance: POST and GET /parameter/value/<id>, GET
// /producer/value/<name>, with an in-memory request and response recorder
// (no socket). What a client observes is what the response carries: the
// status code of an update, the body of a read, status and body of a
// producer request (the handler recovers from a panicking node itself and
// writes the artifact out through a buffered writer after Artifact returned).
type ServerScenario struct{}

func (ServerScenario) Prop() string    { return "C13" }
func (ServerScenario) Name() string    { return "server-clients" }
func (ServerScenario) Isolated() bool  { return true }
func (ServerScenario) NeedsRace() bool { return true }
func (ServerScenario) Run(c choice.Chooser, opt sim.Options) sim.Result {
	return run(c, opt, true)
}

// writeYield: in the server scenario harness artifacts yield inside Write,
// because the moment between Artifact returning and the artifact being
// written out lies inside the handler, where the client loop cannot place a
// scheduling point.
func writeYield(on bool) {
	if on {
		detsched.Yield("client:write", 0)
	}
}

// ------------------------------------------------------------ harness nodes

// LeafData turns an int parameter into a readable token.
type LeafData struct {
	P   nodes.NodeOutput[int]
	Idx int
}

// poisoned parameter values make the node that reads them panic, as a user
// node rejecting its input would; the edit server recovers from such panics
// and keeps serving.
const poison = 9000

// errPoison: int parameter values in [errPoison, poison) do not make a node
// panic; they make the harness PRODUCERS return an error instead of an
// artifact (the graph then hands out no artifact: a failed request).
const errPoison = 8000

var errPoisonRe = regexp.MustCompile(`p\d+=8\d\d\d\b`)

func refuses(in string) error {
	if errPoisonRe.MatchString(in) {
		return fmt.Errorf("producer refuses its input")
	}
	return nil
}

func (d LeafData) Process() (string, error) {
	v := d.P.Value()
	if v >= poison {
		panic(fmt.Errorf("node rejects parameter value %d", v))
	}
	return fmt.Sprintf("p%d=%d", d.Idx, v), nil
}

// MixData reads its inputs one at a time and yields to the scheduler between
// two reads; its output says which values it saw.
type MixData struct {
	A      nodes.NodeOutput[string]
	B      nodes.NodeOutput[string]
	Values []nodes.NodeOutput[string]
	ID     int
	Yields bool
}

func (d MixData) Process() (string, error) {
	var parts []string
	read := func(o nodes.NodeOutput[string], k int) {
		if o == nil {
			return
		}
		if d.Yields {
			detsched.Yield("proc:read", int64(d.ID*16+k))
		}
		parts = append(parts, o.Value())
	}
	read(d.A, 0)
	read(d.B, 1)
	for i, v := range d.Values {
		read(v, 2+i)
	}
	return fmt.Sprintf("n%d(%s)", d.ID, strings.Join(parts, ",")), nil
}

// ArrLeafData turns an array parameter into a readable token, element by
// element (so that a mixture of two arrays is visible).
type ArrLeafData struct {
	P   nodes.NodeOutput[[]vector3.Float64]
	Idx int
}

func renderArr(idx int, a []vector3.Float64) string {
	var parts []string
	for _, v := range a {
		parts = append(parts, fmt.Sprintf("(%g,%g,%g)", v.X(), v.Y(), v.Z()))
	}
	return fmt.Sprintf("p%d=[%s]", idx, strings.Join(parts, ""))
}

func (d ArrLeafData) Process() (string, error) {
	return renderArr(d.Idx, d.P.Value()), nil
}

// pattern is the array a serial number stands for: 1-3 elements that all
// carry the serial.
func pattern(serial int) []vector3.Float64 {
	n := 1 + serial%3
	out := make([]vector3.Float64, n)
	for i := range out {
		out[i] = vector3.New(float64(serial), float64(i), float64(2*serial))
	}
	return out
}

// sliceArtifact keeps the slice it was given, as a mesh artifact keeps the
// arrays of its mesh: what it writes out later must still be what it was
// built from.
type sliceArtifact struct {
	text  string
	idx   int
	pts   []vector3.Float64
	yield bool
}

func (t sliceArtifact) Write(w io.Writer) error {
	writeYield(t.yield)
	_, err := w.Write([]byte(t.text + "+" + renderArr(t.idx, t.pts)))
	return err
}
func (sliceArtifact) Mime() string { return "text/plain" }

type ProdSliceData struct {
	In    nodes.NodeOutput[string]
	Pts   nodes.NodeOutput[[]vector3.Float64]
	Idx   int
	Yield bool
}

func (d ProdSliceData) Process() (artifact.Artifact, error) {
	detsched.Yield("proc:produce", 1)
	if err := refuses(d.In.Value()); err != nil {
		return nil, err
	}
	return sliceArtifact{text: d.In.Value(), idx: d.Idx, pts: d.Pts.Value(), yield: d.Yield}, nil
}

// FileLeafData turns a File parameter (raw bytes) into a readable token.
type FileLeafData struct {
	P   nodes.NodeOutput[[]byte]
	Idx int
}

func (d FileLeafData) Process() (string, error) {
	return fmt.Sprintf("p%d=f:%s", d.Idx, d.P.Value()), nil
}

func fileBytes(serial int) []byte { return []byte(fmt.Sprintf("%08d", serial)) }

type textArtifact struct {
	data  string
	yield bool
}

func (t textArtifact) Write(w io.Writer) error {
	writeYield(t.yield)
	_, err := w.Write([]byte(t.data))
	return err
}
func (textArtifact) Mime() string { return "text/plain" }

type ProdData struct {
	In    nodes.NodeOutput[string]
	Yield bool
}

func (d ProdData) Process() (artifact.Artifact, error) {
	detsched.Yield("proc:produce", 0)
	if err := refuses(d.In.Value()); err != nil {
		return nil, err
	}
	return textArtifact{data: d.In.Value(), yield: d.Yield}, nil
}

// ------------------------------------------------------------ graph spec + model

// ref: >=0 node index, <0 parameter leaf -(p+1)
type nodeSpec struct {
	A, B   int // ref or none
	Values []int
	Yields bool
}

const none = 1 << 20

type graphSpec struct {
	Params    int
	Init      []int
	Nodes     []nodeSpec
	Producers []int // node index per producer
	// RealProducer: use the library's basics.TextNode instead of the
	// harness producer for this producer
	RealProducer []bool
	// ParamKind: 0 int parameter, 1 vector3-array parameter, 2 File parameter
	ParamKind []int
	// BinProducer[k] >= 0: producer k is the library's basics.BinaryNode fed
	// directly by that File parameter
	BinProducer []int
	// SliceProducer[k] >= 0: producer k is a ProdSliceData that also keeps
	// the array of that parameter
	SliceProducer []int
}

func (g graphSpec) leaf(p int, st []int) string {
	if p < len(g.ParamKind) && g.ParamKind[p] == 1 {
		return renderArr(p, pattern(st[p]))
	}
	if p < len(g.ParamKind) && g.ParamKind[p] == 2 {
		return fmt.Sprintf("p%d=f:%s", p, fileBytes(st[p]))
	}
	return fmt.Sprintf("p%d=%d", p, st[p])
}

func (g graphSpec) evalRef(r int, st []int) string {
	if r < 0 {
		return g.leaf(-r-1, st)
	}
	return g.evalNode(r, st)
}

// artifact is what Artifact(producer) must yield in state st: the
// fingerprint, or "PANIC" when a parameter in its cone holds a poisoned value.
func (g graphSpec) artifact(prod int, st []int) string {
	if bp := g.BinProducer[prod]; bp >= 0 {
		return string(fileBytes(st[bp]))
	}
	cone := map[int]bool{}
	g.paramsOf(g.Producers[prod], cone)
	for p := range cone {
		if st[p] >= poison && g.ParamKind[p] == 0 {
			return "PANIC"
		}
	}
	out := g.evalNode(g.Producers[prod], st)
	if !(prod < len(g.RealProducer) && g.RealProducer[prod]) && refuses(out) != nil {
		// a harness producer returns an error: no artifact
		return "PANIC"
	}
	if sp := g.SliceProducer[prod]; sp >= 0 {
		out += "+" + renderArr(sp, pattern(st[sp]))
	}
	return out
}

func (g graphSpec) evalNode(i int, st []int) string {
	n := g.Nodes[i]
	var parts []string
	if n.A != none {
		parts = append(parts, g.evalRef(n.A, st))
	}
	if n.B != none {
		parts = append(parts, g.evalRef(n.B, st))
	}
	for _, v := range n.Values {
		parts = append(parts, g.evalRef(v, st))
	}
	return fmt.Sprintf("n%d(%s)", i, strings.Join(parts, ","))
}

func genGraph(c choice.Chooser) graphSpec {
	g := graphSpec{Params: 2 + c.Intn("g:params", 3)}
	for p := 0; p < g.Params; p++ {
		g.Init = append(g.Init, 1000+p)
		g.ParamKind = append(g.ParamKind, choice.Pick(c, "g:paramkind", []int{4, 2, 1}))
	}
	nn := 2 + c.Intn("g:nodes", 4)
	pickRef := func(i int) int {
		// earlier node or parameter
		k := c.Intn("g:ref", i+g.Params)
		if k < g.Params {
			return -(k + 1)
		}
		return k - g.Params
	}
	for i := 0; i < nn; i++ {
		n := nodeSpec{A: pickRef(i), B: none, Yields: c.Intn("g:yields", 4) != 3}
		if choice.Bool(c, "g:hasB") {
			n.B = pickRef(i)
		}
		for k := c.Intn("g:arr", 3); k > 0; k-- {
			n.Values = append(n.Values, pickRef(i))
		}
		g.Nodes = append(g.Nodes, n)
	}
	np := 1 + c.Intn("g:producers", 3)
	for k := 0; k < np; k++ {
		// the last node is always produced so that the graph is multi-level
		if k == 0 {
			g.Producers = append(g.Producers, nn-1)
		} else {
			g.Producers = append(g.Producers, c.Intn("g:prodnode", nn))
		}
		g.RealProducer = append(g.RealProducer, choice.Bool(c, "g:realproducer"))
		sp := -1
		if !g.RealProducer[k] && choice.Bool(c, "g:sliceproducer") {
			for p := 0; p < g.Params; p++ {
				if g.ParamKind[p] == 1 {
					sp = p
				}
			}
		}
		g.SliceProducer = append(g.SliceProducer, sp)
		bp := -1
		if k > 0 && choice.Bool(c, "g:binproducer") {
			for p := 0; p < g.Params; p++ {
				if g.ParamKind[p] == 2 {
					bp = p
				}
			}
		}
		g.BinProducer = append(g.BinProducer, bp)
	}
	return g
}

type built struct {
	inst     *graph.Instance
	paramIDs []string
	prodName []string
	leafIDs  []string // ids of the (non-parameter) nodes that read the parameters
}

func build(g graphSpec, server bool) built {
	var b built
	params := make([]nodes.Node, g.Params)
	arrParams := make([]*parameter.Value[[]vector3.Float64], g.Params)
	fileParams := make([]*parameter.File, g.Params)
	leaves := make([]nodes.NodeOutput[string], g.Params)
	for p := range params {
		if g.ParamKind[p] == 1 {
			ap := &parameter.Value[[]vector3.Float64]{Name: fmt.Sprintf("P%d", p), DefaultValue: pattern(g.Init[p])}
			params[p], arrParams[p] = ap, ap
			leaves[p] = (&nodes.Struct[string, ArrLeafData]{Data: ArrLeafData{P: ap.Out(), Idx: p}}).Out()
		} else if g.ParamKind[p] == 2 {
			fp := &parameter.File{Name: fmt.Sprintf("P%d", p), DefaultValue: fileBytes(g.Init[p])}
			params[p], fileParams[p] = fp, fp
			leaves[p] = (&nodes.Struct[string, FileLeafData]{Data: FileLeafData{P: fp.Out(), Idx: p}}).Out()
		} else {
			ip := &parameter.Value[int]{Name: fmt.Sprintf("P%d", p), DefaultValue: g.Init[p]}
			params[p] = ip
			leaves[p] = (&nodes.Struct[string, LeafData]{Data: LeafData{P: ip.Out(), Idx: p}}).Out()
		}
	}
	ns := make([]*nodes.Struct[string, MixData], len(g.Nodes))
	out := func(r int) nodes.NodeOutput[string] {
		if r < 0 {
			return leaves[-r-1]
		}
		return ns[r].Out()
	}
	for i, n := range g.Nodes {
		d := MixData{ID: i, Yields: n.Yields, A: out(n.A)}
		if n.B != none {
			d.B = out(n.B)
		}
		for _, v := range n.Values {
			d.Values = append(d.Values, out(v))
		}
		ns[i] = &nodes.Struct[string, MixData]{Data: d}
	}
	b.inst = graph.New(&refutil.TypeFactory{})
	for k, ni := range g.Producers {
		name := fmt.Sprintf("out%d.txt", k)
		if bp := g.BinProducer[k]; bp >= 0 {
			// the library's binary producer on the File parameter itself
			b.inst.AddProducer(name, basics.NewBinaryNode(fileParams[bp].Out()))
		} else if k < len(g.RealProducer) && g.RealProducer[k] {
			// the library's own text producer and artifact type: what it
			// hands out must stay valid after the lock is released
			b.inst.AddProducer(name, basics.NewTextNode(ns[ni].Out()))
		} else if sp := g.SliceProducer[k]; sp >= 0 {
			prod := &nodes.Struct[artifact.Artifact, ProdSliceData]{Data: ProdSliceData{In: ns[ni].Out(), Pts: arrParams[sp].Out(), Idx: sp, Yield: server}}
			b.inst.AddProducer(name, prod.Out())
		} else {
			prod := &nodes.Struct[artifact.Artifact, ProdData]{Data: ProdData{In: ns[ni].Out(), Yield: server}}
			b.inst.AddProducer(name, prod.Out())
		}
		b.prodName = append(b.prodName, name)
	}
	for p := range params {
		b.paramIDs = append(b.paramIDs, b.inst.NodeId(params[p])) // "" when no producer depends on it
		b.leafIDs = append(b.leafIDs, b.inst.NodeId(leaves[p].Node()))
	}
	return b
}

// ------------------------------------------------------------ operations

const (
	opUpdate = iota
	opBadUpdate
	opRead
	opArtifact
	// opBadTarget: a call that names a node that does not exist, or one that
	// is not a parameter (Param: 0/1 update/read of an unknown id, 2/3
	// update/read of a node that is not a parameter, 4 an unknown producer).
	// The call fails - on the pinned tree by panicking, which a client (like
	// the server's handlers) recovers from. It changes nothing, and nothing
	// is demanded of how it fails; what is judged is that every other call
	// still completes and is served correctly afterwards.
	opBadTarget
)

type op struct {
	Kind  int
	Param int
	Value int
	Prod  int
}

func (o op) String() string {
	switch o.Kind {
	case opUpdate:
		return fmt.Sprintf("Update(P%d:=%d)", o.Param, o.Value)
	case opBadUpdate:
		return fmt.Sprintf("UpdateMalformed(P%d)", o.Param)
	case opRead:
		return fmt.Sprintf("Read(P%d)", o.Param)
	case opBadTarget:
		return [...]string{"Update(unknown id)", "Read(unknown id)", "Update(node that is no parameter)", "Read(node that is no parameter)", "Artifact(unknown producer)"}[o.Param]
	}
	return fmt.Sprintf("Artifact(out%d)", o.Prod)
}

type result struct {
	Done bool
	Err  bool
	Val  string
}

type opIn struct {
	Op op
	g  *graphSpec
}

func model(g *graphSpec) porcupine.Model {
	return porcupine.Model{
		Init: func() interface{} {
			var st [8]int
			copy(st[:], g.Init)
			return st
		},
		Step: func(state, input, output interface{}) (bool, interface{}) {
			st := state.([8]int)
			o := input.(op)
			r := output.(result)
			switch o.Kind {
			case opUpdate:
				if r.Err {
					return false, st
				}
				st[o.Param] = o.Value
				return true, st
			case opBadUpdate:
				return r.Err, st
			case opBadTarget:
				return true, st
			case opRead:
				if g.ParamKind[o.Param] == 1 {
					want, _ := json.Marshal(pattern(st[o.Param]))
					return r.Val == string(want), st
				}
				if g.ParamKind[o.Param] == 2 {
					return r.Val == string(fileBytes(st[o.Param])), st
				}
				return r.Val == strconv.Itoa(st[o.Param]), st
			default:
				return r.Val == g.artifact(o.Prod, st[:]), st
			}
		},
		DescribeOperation: func(input, output interface{}) string {
			return fmt.Sprintf("%v -> %+v", input.(op), output.(result))
		},
	}
}

// paramsOf lists the parameters a producer transitively depends on.
func (g graphSpec) paramsOf(node int, seen map[int]bool) {
	n := g.Nodes[node]
	for _, r := range append([]int{n.A, n.B}, n.Values...) {
		if r == none {
			continue
		}
		if r < 0 {
			seen[-r-1] = true
		} else {
			g.paramsOf(r, seen)
		}
	}
}

func (Scenario) Run(c choice.Chooser, opt sim.Options) sim.Result {
	return run(c, opt, false)
}

func run(c choice.Chooser, opt sim.Options, server bool) sim.Result {
	res := sim.Result{Evals: 1}
	g := genGraph(c)
	b := build(g, server)
	var paramH, prodH http.Handler
	if server {
		// the handlers log failed requests; a discarded logger takes no lock
		log.SetOutput(io.Discard)
		paramH, prodH = generator.VerifRequestHandlers(b.inst)
		res.Count("front-end:http-handlers", 1)
	}
	serve := func(h http.Handler, method, url string, body []byte) *httptest.ResponseRecorder {
		rec := httptest.NewRecorder()
		h.ServeHTTP(rec, httptest.NewRequest(method, url, bytes.NewReader(body)))
		return rec
	}

	// only parameters some producer depends on are part of the instance
	reach := map[int]bool{}
	for k, ni := range g.Producers {
		if bp := g.BinProducer[k]; bp >= 0 {
			reach[bp] = true
			continue
		}
		g.paramsOf(ni, reach)
		if sp := g.SliceProducer[k]; sp >= 0 {
			reach[sp] = true
		}
	}
	var usable []int
	for p := 0; p < g.Params; p++ {
		if reach[p] {
			usable = append(usable, p)
		}
	}
	maxClients, maxOps, maxTotal := 3, 5, 20
	if opt.Tier == "thorough" {
		// deeper bounds: up to 5 clients, 8 calls each, 28 in a history
		maxClients, maxOps, maxTotal = 4, 7, 28
	}
	clients := 2 + c.Intn("w:clients", maxClients)
	// serial numbers start at 100: consecutive update messages mostly have
	// the same length, which is what a client that reuses its message buffer
	// needs in order to hand over the very same bytes region again
	next := 100
	reuse := make([]bool, clients)
	for cl := range reuse {
		reuse[cl] = c.Intn("w:reuse-buffer", 3) == 2
	}
	plans := make([][]op, clients)
	total := 0
	for cl := 0; cl < clients; cl++ {
		n := 2 + c.Intn("w:ops", maxOps)
		for k := 0; k < n && total < maxTotal; k++ {
			var o op
			switch choice.Pick(c, "op:kind", []int{8, 2, 4, 10, 1}) {
			case 0:
				o = op{Kind: opUpdate, Param: usable[c.Intn("op:param", len(usable))], Value: next}
				switch c.Intn("op:poison", 7) {
				case 6:
					o.Value = poison + next
				case 5:
					o.Value = errPoison + next
				}
				next++
			case 1:
				o = op{Kind: opBadUpdate, Param: usable[c.Intn("op:param", len(usable))]}
				if g.ParamKind[o.Param] == 2 {
					// a File parameter accepts any bytes: nothing is malformed
					o = op{Kind: opUpdate, Param: o.Param, Value: next}
					next++
				}
			case 2:
				o = op{Kind: opRead, Param: usable[c.Intn("op:param", len(usable))]}
			case 4:
				o = op{Kind: opBadTarget, Param: c.Intn("op:bad-target", 5)}
			default:
				o = op{Kind: opArtifact, Prod: c.Intn("op:prod", len(g.Producers))}
			}
			plans[cl] = append(plans[cl], o)
			total++
		}
	}

	results := make([][]result, clients)
	s := detsched.New(c)
	for cl := 0; cl < clients; cl++ {
		cl := cl
		results[cl] = make([]result, len(plans[cl]))
		s.Go(fmt.Sprintf("client%d", cl), func() {
			// a client may keep one buffer for all the messages it sends:
			// once a call has returned, the bytes it was given belong to
			// the caller again
			buf := make([]byte, 0, 256)
			message := func(m []byte) []byte {
				if !reuse[cl] || len(m) > cap(buf) {
					return m
				}
				buf = append(buf[:0], m...)
				return buf
			}
			for k, o := range plans[cl] {
				var r result
				var msg []byte
				switch o.Kind {
				case opUpdate:
					msg = []byte(strconv.Itoa(o.Value))
					if g.ParamKind[o.Param] == 1 {
						msg, _ = json.Marshal(pattern(o.Value))
					}
					if g.ParamKind[o.Param] == 2 {
						msg = fileBytes(o.Value)
					}
					msg = message(msg)
				case opBadUpdate:
					msg = []byte("{not json")
					if g.ParamKind[o.Param] == 1 {
						// a valid first element, then garbage: must be
						// rejected as a whole
						msg = []byte(fmt.Sprintf(`[{"x":%d,"y":7,"z":7},{"x":`, 7000+k))
					}
					msg = message(msg)
				}
				detsched.Yield("client:invoke", int64(k))
				switch o.Kind {
				case opUpdate, opBadUpdate:
					if server {
						rec := serve(paramH, http.MethodPost, "http://sim/parameter/value/"+b.paramIDs[o.Param], msg)
						r.Err = rec.Code != http.StatusOK
					} else {
						_, err := b.inst.UpdateParameter(b.paramIDs[o.Param], msg)
						r.Err = err != nil
					}
					detsched.Yield("client:return", int64(k))
				case opBadTarget:
					id := "Node-no-such"
					if o.Param == 2 || o.Param == 3 {
						for _, l := range b.leafIDs {
							if l != "" {
								id = l
							}
						}
					}
					failed := false
					func() {
						defer func() {
							if recover() != nil {
								failed = true
							}
						}()
						switch {
						case server && o.Param == 4:
							failed = serve(prodH, http.MethodGet, "http://sim/producer/value/no-such-file", nil).Code != http.StatusOK
						case server && o.Param%2 == 0:
							failed = serve(paramH, http.MethodPost, "http://sim/parameter/value/"+id, []byte("1")).Code != http.StatusOK
						case server:
							failed = serve(paramH, http.MethodGet, "http://sim/parameter/value/"+id, nil).Code != http.StatusOK
						case o.Param == 4:
							b.inst.Artifact("no-such-file")
						case o.Param%2 == 0:
							_, err := b.inst.UpdateParameter(id, []byte("1"))
							failed = err != nil
						default:
							b.inst.ParameterData(id)
						}
					}()
					r.Err = failed
					detsched.Yield("client:return", int64(k))
				case opRead:
					var d []byte
					if server {
						rec := serve(paramH, http.MethodGet, "http://sim/parameter/value/"+b.paramIDs[o.Param], nil)
						d = rec.Body.Bytes()
						if rec.Code != http.StatusOK {
							d = []byte(fmt.Sprintf("HTTP %d: %s", rec.Code, d))
						}
					} else {
						d = b.inst.ParameterData(b.paramIDs[o.Param])
					}
					detsched.Yield("client:return", int64(k))
					r.Val = string(d)
				default:
					if server {
						rec := serve(prodH, http.MethodGet, "http://sim/producer/value/"+b.prodName[o.Prod], nil)
						detsched.Yield("client:return", int64(k))
						if rec.Code != http.StatusOK {
							// the handler recovered from a failed generation
							r.Val = "PANIC"
						} else {
							r.Val = rec.Body.String()
						}
						break
					}
					var a artifact.Artifact
					panicked := false
					func() {
						// the edit server recovers from a panicking node
						defer func() {
							if recover() != nil {
								panicked = true
							}
						}()
						a = b.inst.Artifact(b.prodName[o.Prod])
					}()
					detsched.Yield("client:return", int64(k))
					if panicked || a == nil {
						// the call failed: by panicking (the pinned tree) or
						// by handing out no artifact
						r.Val = "PANIC"
						break
					}
					// the server writes the artifact out after the call
					// returned, outside the lock
					detsched.Yield("client:write", int64(k))
					var buf bytes.Buffer
					a.Write(&buf)
					r.Val = buf.String()
				}
				r.Done = true
				results[cl][k] = r
			}
		})
	}
	out := s.Run()
	res.Steps = int(out.Steps)
	res.Count("fault:schedule-policy:"+out.PolicyName, 1)
	res.Count("sched:steps", int(out.Steps))
	res.Count("sched:switches", out.Switches)
	res.Count("sched:dumps", out.Dumps)
	res.LogHash = out.Signature()
	res.Sig = out.Signature()
	res.DetHash = out.Decisions

	history := func() []string {
		var h []string
		for _, e := range out.Events {
			if strings.HasPrefix(e.Site, "client:") || strings.HasPrefix(e.Site, "proc:") {
				h = append(h, fmt.Sprintf("s%d c%d %s#%d", e.Step, e.Task, e.Site, e.Aux))
			}
		}
		return h
	}
	detail := func() map[string]any {
		plan := map[string][]string{}
		for cl := range plans {
			for _, o := range plans[cl] {
				plan[fmt.Sprintf("client%d", cl)] = append(plan[fmt.Sprintf("client%d", cl)], o.String())
			}
		}
		return map[string]any{"graph": g, "plans": plan, "policy": out.PolicyName, "schedule": history(), "steps": out.Steps}
	}

	switch {
	case out.Trouble != "":
		// harness trouble is not a property violation
		res.Count("harness-trouble", 1)
		res.Violation = &sim.Violation{Class: "HARNESS/" + out.Trouble, Msg: out.Trouble}
		return res
	case out.Deadlock:
		res.Violation = &sim.Violation{Class: "deadlock", Msg: "no client can run and some wait forever: " + strings.Join(out.Blocked, "; "), Detail: detail()}
		return res
	case out.NoProgress:
		res.Violation = &sim.Violation{Class: "no-progress", Msg: fmt.Sprintf("pending calls did not return within %d fair steps after the fault phase", s.FairBound), Detail: detail()}
		return res
	case len(out.Panics) > 0:
		var names []string
		for n, p := range out.Panics {
			names = append(names, n+": "+firstLine(p))
		}
		sort.Strings(names)
		res.Violation = &sim.Violation{Class: "panic", Msg: "a client call panicked: " + strings.Join(names, "; "), Detail: map[string]any{"panics": out.Panics, "run": detail()}}
		return res
	}

	// recorded history -> porcupine
	type key struct{ task, k int }
	call := map[key]int64{}
	ret := map[key]int64{}
	for _, e := range out.Events {
		switch e.Site {
		case "client:invoke":
			call[key{e.Task, int(e.Aux)}] = 2 * e.Released
		case "client:return":
			ret[key{e.Task, int(e.Aux)}] = 2*e.Step + 1
		}
	}
	var ops []porcupine.Operation
	overlap := false
	for cl := range plans {
		for k, o := range plans[cl] {
			r := results[cl][k]
			if !r.Done {
				res.Violation = &sim.Violation{Class: "HARNESS/incomplete", Msg: "operation did not complete although all tasks exited"}
				return res
			}
			ops = append(ops, porcupine.Operation{ClientId: cl, Input: o, Call: call[key{cl, k}], Output: r, Return: ret[key{cl, k}]})
		}
	}
	for i := range ops {
		for j := range ops {
			if i != j && ops[i].ClientId != ops[j].ClientId && ops[i].Call < ops[j].Return && ops[j].Call < ops[i].Return {
				overlap = true
			}
		}
	}
	res.Nontrivial = overlap
	if overlap {
		res.Count("probe:overlapping-operations", 1)
	}
	// probes: an update landed while another client was parked inside evaluation
	inEval := map[int]bool{}
	blockedWhileEval := false
	for _, e := range out.Events {
		if strings.HasPrefix(e.Site, "proc:") {
			inEval[e.Task] = true
		} else if e.Site == "client:return" {
			delete(inEval, e.Task)
		}
		if strings.HasSuffix(e.Site, ":lock") && len(inEval) > 0 {
			blockedWhileEval = true
		}
	}
	if blockedWhileEval {
		res.Count("probe:call-arrived-during-evaluation", 1)
		res.Count("fault:client-stalled-inside-evaluation-while-others-arrive", 1)
	}
	for cl := range plans {
		if reuse[cl] {
			res.Count("fault:client-reuses-its-message-buffer", 1)
		}
		for _, o := range plans[cl] {
			switch {
			case o.Kind == opBadUpdate:
				res.Count("fault:malformed-update", 1)
			case o.Kind == opBadTarget:
				res.Count("fault:call-names-unknown-or-non-parameter-node", 1)
			case o.Kind == opUpdate && o.Value >= poison && g.ParamKind[o.Param] == 0:
				res.Count("fault:poisoned-value(node-panics)", 1)
			case o.Kind == opUpdate && o.Value >= errPoison && g.ParamKind[o.Param] == 0:
				res.Count("fault:poisoned-value(producer-returns-error)", 1)
			}
		}
	}
	// A malformed update that the implementation ACCEPTS: the property does
	// not say it must be rejected, and the model cannot know which value a
	// lenient decoder took - such a history is not judged for
	// linearizability (races, deadlocks and crashes in it still are). A
	// malformed update that is rejected must leave the state untouched:
	// that is the model's rule for it.
	for cl := range plans {
		for k, o := range plans[cl] {
			if o.Kind == opBadUpdate && !results[cl][k].Err {
				res.Count("probe:malformed-update-accepted-history-unjudged", 1)
				if opt.WantSample {
					res.Sample = detail()
				}
				return res
			}
		}
	}
	m := model(&g)
	verdict, _ := porcupine.CheckOperationsVerbose(m, ops, 30*time.Second)
	res.Count("porcupine:"+string(verdict), 1)
	if verdict == porcupine.Illegal {
		var hs []string
		for _, o := range ops {
			hs = append(hs, fmt.Sprintf("client%d [%d,%d] %v -> %+v", o.ClientId, o.Call, o.Return, o.Input.(op), o.Output.(result)))
		}
		d := detail()
		d["history"] = hs
		res.Violation = &sim.Violation{Class: "not-linearizable", Msg: "the recorded history of update/read/artifact calls has no linearization (an artifact or read shows a mixed or stale state)", Detail: d}
		return res
	}
	if opt.WantSample {
		res.Sample = detail()
	}
	return res
}

func firstLine(s string) string {
	if i := strings.IndexByte(s, '\n'); i >= 0 {
		return s[:i]
	}
	return s
}
