//go:build verif

// Package c12 decides property C12: after any edit history, saving the graph
// and loading it into a fresh application yields the same graph, artifacts
// and bytes. Durability pattern: the edit history runs against a real
// generator.App; "save + restart" is one more generated operation, after
// which only the saved bytes survive and the history continues on the
// reloaded application.
package c12

import (
	"bytes"
	"encoding/json"
	"fmt"
	"image"
	"image/color"
	"image/png"
	"io"
	"os"
	"path/filepath"
	"reflect"
	"sort"
	"strconv"
	"strings"
	"time"

	"github.com/EliCDavis/polyform/drawing/coloring"
	"github.com/EliCDavis/polyform/generator"
	"github.com/EliCDavis/polyform/generator/artifact"
	"github.com/EliCDavis/polyform/generator/graph"
	"github.com/EliCDavis/polyform/generator/schema"
	"github.com/EliCDavis/polyform/math/geometry"
	"github.com/EliCDavis/polyform/nodes"
	"github.com/EliCDavis/polyform/refutil"
	"github.com/EliCDavis/vector/vector2"
	"github.com/EliCDavis/vector/vector3"

	// register every node type cmd/polyform registers
	_ "github.com/EliCDavis/polyform/formats/colmap"
	_ "github.com/EliCDavis/polyform/formats/gltf"
	_ "github.com/EliCDavis/polyform/formats/opensfm"
	_ "github.com/EliCDavis/polyform/formats/ply"
	_ "github.com/EliCDavis/polyform/formats/splat"
	_ "github.com/EliCDavis/polyform/formats/spz"
	_ "github.com/EliCDavis/polyform/formats/stl"
	_ "github.com/EliCDavis/polyform/generator/artifact/basics"
	_ "github.com/EliCDavis/polyform/generator/parameter"
	_ "github.com/EliCDavis/polyform/math"
	_ "github.com/EliCDavis/polyform/math/vector"
	_ "github.com/EliCDavis/polyform/modeling/extrude"
	_ "github.com/EliCDavis/polyform/modeling/meshops"
	_ "github.com/EliCDavis/polyform/modeling/meshops/gausops"
	_ "github.com/EliCDavis/polyform/modeling/primitives"
	_ "github.com/EliCDavis/polyform/modeling/repeat"
	_ "github.com/EliCDavis/polyform/nodes/experimental"

	"verif/internal/choice"
	_ "verif/internal/seams"
	"verif/internal/sim"
	"verif/internal/watchdog"
)

// Scenario: Race selects the variant executed by the -race worker. Saving and
// loading are sequential calls; should the library ever do them on several
// goroutines internally, the race detector judges that synchronisation.
type Scenario struct{ Race bool }

func (Scenario) Prop() string { return "C12" }
func (s Scenario) Name() string {
	if s.Race {
		return "edit-save-restart-race"
	}
	return "edit-save-restart"
}
func (Scenario) Isolated() bool    { return false }
func (s Scenario) NeedsRace() bool { return s.Race }

// ------------------------------------------------------------ harness node types
// Deterministic, order-sensitive artifact producers with array inputs.

type textArtifact struct{ data string }

func (t textArtifact) Write(w io.Writer) error { _, err := w.Write([]byte(t.data)); return err }
func (textArtifact) Mime() string              { return "text/plain" }

// JoinData lists its inputs in order.
type JoinData struct {
	Numbers []nodes.NodeOutput[float64]
	Texts   []nodes.NodeOutput[string]
	Title   nodes.NodeOutput[string]
	Count   nodes.NodeOutput[int]
}

func (d JoinData) Process() (artifact.Artifact, error) {
	var sb strings.Builder
	fmt.Fprintf(&sb, "title=%q count=%d\n", nodes.TryGetOutputValue(d.Title, "-"), nodes.TryGetOutputValue(d.Count, -1))
	for i, n := range d.Numbers {
		fmt.Fprintf(&sb, "n%d=%v\n", i, strconv.FormatFloat(n.Value(), 'g', -1, 64))
	}
	for i, t := range d.Texts {
		fmt.Fprintf(&sb, "t%d=%q\n", i, t.Value())
	}
	return textArtifact{data: sb.String()}, nil
}

// FmtData turns numbers into text (so that numeric sub-graphs reach text producers).
type FmtData struct {
	A nodes.NodeOutput[float64]
	B nodes.NodeOutput[int]
	V nodes.NodeOutput[vector3.Float64]
}

func (d FmtData) Process() (string, error) {
	return fmt.Sprintf("a=%v b=%d v=%v", nodes.TryGetOutputValue(d.A, 0), nodes.TryGetOutputValue(d.B, 0), nodes.TryGetOutputValue(d.V, vector3.Zero[float64]())), nil
}

// PrefixData has ports whose names share prefixes or differ only in case:
// the order in which dependencies are saved and re-applied must not depend
// on such accidents.
type PrefixData struct {
	Val   nodes.NodeOutput[float64]
	Vals  []nodes.NodeOutput[float64]
	ValsB []nodes.NodeOutput[float64]
	VALS  nodes.NodeOutput[float64]
	Va    []nodes.NodeOutput[float64]
}

func (d PrefixData) Process() (artifact.Artifact, error) {
	var sb strings.Builder
	fmt.Fprintf(&sb, "val=%v VALS=%v\n", nodes.TryGetOutputValue(d.Val, -1), nodes.TryGetOutputValue(d.VALS, -2))
	for _, part := range []struct {
		n string
		a []nodes.NodeOutput[float64]
	}{{"vals", d.Vals}, {"valsb", d.ValsB}, {"va", d.Va}} {
		for i, v := range part.a {
			fmt.Fprintf(&sb, "%s%d=%v\n", part.n, i, strconv.FormatFloat(v.Value(), 'g', -1, 64))
		}
	}
	return textArtifact{data: sb.String()}, nil
}

// SplitNode is a hand-written node type (not a nodes.Struct) with two output
// ports, Upper and Lower: which PORT of a node a connection comes from is part
// of the wiring a saved graph must preserve. No node type shipped with the
// repository has a second output port; a user-registered one may.
type SplitNode struct {
	In      nodes.NodeOutput[string]
	rewired int
}

type splitOut struct {
	n    *SplitNode
	port string
}

func (o splitOut) Node() nodes.Node { return o.n }
func (o splitOut) Port() string     { return o.port }
func (o splitOut) Value() string {
	v := nodes.TryGetOutputValue(o.n.In, "none")
	if o.port == "Upper" {
		return "U(" + strings.ToUpper(v) + ")"
	}
	return "l(" + strings.ToLower(v) + ")"
}

type splitDep struct{ ref nodes.NodeOutputReference }

func (d splitDep) Name() string           { return "In" }
func (d splitDep) Dependency() nodes.Node { return d.ref.Node() }
func (d splitDep) DependencyPort() string { return d.ref.Port() }

func (n *SplitNode) Upper() nodes.NodeOutput[string] { return splitOut{n: n, port: "Upper"} }
func (n *SplitNode) Lower() nodes.NodeOutput[string] { return splitOut{n: n, port: "Lower"} }
// A pass-through node: it changes when it is re-wired or when what it reads
// changes, and it is as stale as what it reads.
func (n *SplitNode) Version() int {
	v := n.rewired << 20
	if n.In != nil {
		v += n.In.Node().Version()
	}
	return v
}
func (n *SplitNode) State() nodes.NodeState {
	if n.In != nil {
		return n.In.Node().State()
	}
	return nodes.Processed
}
func (n *SplitNode) Dependencies() []nodes.NodeDependency {
	if n.In == nil {
		return nil
	}
	return []nodes.NodeDependency{splitDep{ref: n.In}}
}
func (n *SplitNode) SetInput(input string, output nodes.Output) {
	if input != "In" {
		panic("SplitNode has no input " + input)
	}
	n.rewired++
	if output.NodeOutput == nil {
		n.In = nil
		return
	}
	n.In = output.NodeOutput.(nodes.NodeOutput[string])
}
func (n *SplitNode) Outputs() []nodes.Output {
	return []nodes.Output{{Type: "string", NodeOutput: n.Upper()}, {Type: "string", NodeOutput: n.Lower()}}
}
func (n *SplitNode) Inputs() []nodes.Input { return []nodes.Input{{Name: "In", Type: "string"}} }

func init() {
	f := &refutil.TypeFactory{}
	refutil.RegisterType[SplitNode](f)
	refutil.RegisterType[nodes.Struct[artifact.Artifact, PrefixData]](f)
	refutil.RegisterType[nodes.Struct[artifact.Artifact, JoinData]](f)
	refutil.RegisterType[nodes.Struct[string, FmtData]](f)
	generator.RegisterTypes(f)
}

// ------------------------------------------------------------ type table

type portInfo struct {
	Name  string
	Type  string
	Array bool
}

type typeInfo struct {
	Key     string
	Inputs  []portInfo
	OutType string
	Outs    []portInfo // every output port (OutType is the type of the first)
	IsParam bool
}

var typeTable []typeInfo
var typeByKey map[string]*typeInfo

const artifactType = "github.com/EliCDavis/polyform/generator/artifact.Artifact"

func loadTypes(inst *graph.Instance) {
	if typeTable != nil {
		return
	}
	typeByKey = map[string]*typeInfo{}
	for _, t := range inst.Schema().Types {
		ti := typeInfo{Key: t.Type, IsParam: t.Parameter != nil}
		for n, i := range t.Inputs {
			ti.Inputs = append(ti.Inputs, portInfo{Name: n, Type: i.Type, Array: i.IsArray})
		}
		sort.Slice(ti.Inputs, func(a, b int) bool { return ti.Inputs[a].Name < ti.Inputs[b].Name })
		if len(t.Outputs) > 0 {
			ti.OutType = t.Outputs[0].Type
		}
		for _, o := range t.Outputs {
			ti.Outs = append(ti.Outs, portInfo{Name: o.Name, Type: o.Type})
		}
		typeTable = append(typeTable, ti)
	}
	sort.Slice(typeTable, func(a, b int) bool { return typeTable[a].Key < typeTable[b].Key })
	for i := range typeTable {
		typeByKey[typeTable[i].Key] = &typeTable[i]
	}
}

func shortType(k string) string {
	k = strings.ReplaceAll(k, "github.com/EliCDavis/polyform/", "")
	k = strings.ReplaceAll(k, "github.com/EliCDavis/", "")
	return k
}

// ------------------------------------------------------------ the application under simulation

func newApp() *generator.App {
	return &generator.App{
		Name:        "Polyform",
		Version:     "0.22.0",
		Description: "Immutable mesh processing program",
		Authors:     []schema.Author{{Name: "verif", ContactInfo: []schema.AuthorContact{{Medium: "none", Value: "n/a"}}}},
	}
}

type world struct {
	app  *generator.App
	inst *graph.Instance
}

func (w *world) nodeIDs() []string {
	var ids []string
	sc := w.inst.Schema()
	for id := range sc.Nodes {
		ids = append(ids, id)
	}
	sort.Slice(ids, func(a, b int) bool {
		if len(ids[a]) != len(ids[b]) {
			return len(ids[a]) < len(ids[b])
		}
		return ids[a] < ids[b]
	})
	return ids
}

func (w *world) typeOf(id string) *typeInfo {
	return typeByKey[refutil.GetTypeWithPackage(w.inst.Node(id))]
}

// dependsOn: does node a transitively depend on node b (live graph)?
func (w *world) dependsOn(a, b nodes.Node, depth int) bool {
	if depth > 200 {
		return true
	}
	for _, d := range a.Dependencies() {
		if d.Dependency() == b || w.dependsOn(d.Dependency(), b, depth+1) {
			return true
		}
	}
	return false
}

func try(f func()) (panicked string) {
	defer func() {
		if r := recover(); r != nil {
			panicked = fmt.Sprint(r)
		}
	}()
	f()
	return ""
}

// ------------------------------------------------------------ observation

// structure returns the canonical JSON of everything the saved graph is
// supposed to preserve, taken from the live instance through its public
// schema; execution counters are excluded.
func (w *world) structure() (string, string) {
	var out map[string]any
	p := try(func() {
		sc := w.inst.Schema()
		sc.Types = nil
		b, err := json.Marshal(sc)
		if err != nil {
			panic(err)
		}
		if err := json.Unmarshal(b, &out); err != nil {
			panic(err)
		}
	})
	if p != "" {
		return "", p
	}
	delete(out, "types")
	if ns, ok := out["nodes"].(map[string]any); ok {
		for id, n := range ns {
			if m, ok := n.(map[string]any); ok {
				delete(m, "version")
				// parameter values, name and description as the nodes
				// themselves report them
				node := w.inst.Node(id)
				if prm, ok := node.(graph.Parameter); ok {
					m["parameterData"] = string(prm.ToMessage())
					rv := reflect.ValueOf(node)
					for rv.Kind() == reflect.Pointer {
						rv = rv.Elem()
					}
					for _, f := range []string{"Name", "Description"} {
						if fv := rv.FieldByName(f); fv.IsValid() && fv.Kind() == reflect.String {
							m["field"+f] = fv.String()
						}
					}
				}
			}
		}
	}
	// metadata tree
	appSchema := &schema.App{}
	b, _ := json.Marshal(out)
	_ = appSchema
	return string(b), ""
}

type artifactResult struct {
	OK      bool
	Content string
	Err     string
}

// deterministic reports whether every node in the cone of a producer is of a
// type that is a deterministic function of its inputs. Noise/texture nodes
// (seeded from the global PRNG) and the glTF writer (emits tables in Go map
// order) are not; the property speaks about deterministic nodes only.
func (w *world) deterministic(n nodes.Node, depth int) bool {
	k := shortType(refutil.GetTypeWithPackage(n))
	if strings.Contains(k, "nodes/experimental.") || strings.Contains(k, "formats/gltf.") || depth > 200 {
		return false
	}
	// file readers fed with generated bytes: a header count taken from
	// arbitrary bytes makes some of them allocate tens of gigabytes (that
	// is not a C12 matter, but it kills the worker)
	if strings.Contains(k, ".ReadNodeData") || strings.Contains(k, ".ReadPointsNodeData") || strings.Contains(k, ".ReadReconstructionNodeData") {
		return false
	}
	for _, d := range n.Dependencies() {
		if !w.deterministic(d.Dependency(), depth+1) {
			return false
		}
	}
	return true
}

func (w *world) artifacts() map[string]artifactResult {
	out := map[string]artifactResult{}
	names := w.inst.ProducerNames()
	sort.Strings(names)
	for _, n := range names {
		var r artifactResult
		if p := w.inst.Producer(n); p == nil || !w.deterministic(p.Node(), 0) {
			out[n] = artifactResult{Err: "not-deterministic-by-type"}
			continue
		}
		o := watchdog.Call(5*time.Second, func() {
			a := w.inst.Artifact(n)
			var buf bytes.Buffer
			if err := a.Write(&buf); err != nil {
				r.Err = "write: " + err.Error()
				return
			}
			r.OK = true
			r.Content = buf.String()
		})
		switch {
		case o.Hung:
			r = artifactResult{Err: "evaluation exceeded 5 s CPU"}
		case o.Panic != nil:
			r = artifactResult{Err: "panic: " + o.PanicString()}
		}
		out[n] = r
	}
	return out
}

// ------------------------------------------------------------ value generators

func genString(c choice.Chooser) string {
	alphabet := []string{"a", "B", " ", "\"", "\\", "/", "é", "日本", "\n", "\t", "<", "&", "0", ".", "{", "}", "😀", "'"}
	n := c.Intn("str:len", 6)
	var sb strings.Builder
	for i := 0; i < n; i++ {
		sb.WriteString(alphabet[c.Intn("str:ch", len(alphabet))])
	}
	return sb.String()
}

func genFloat(c choice.Chooser) float64 {
	switch c.Intn("f:kind", 5) {
	case 0:
		return float64(c.Intn("f", 5))
	case 1:
		return float64(c.Intn("f", 41)-20) / 4
	case 2:
		return float64(c.Intn("f", 2000)) / 7
	case 3:
		return 1e-9 * float64(c.Intn("f", 1000))
	default:
		return -float64(c.Intn("f", 100000)) * 1.1
	}
}

func pngBytes(c choice.Chooser) []byte {
	w, h := 1+c.Intn("img:w", 3), 1+c.Intn("img:h", 3)
	img := image.NewRGBA(image.Rect(0, 0, w, h))
	for y := 0; y < h; y++ {
		for x := 0; x < w; x++ {
			img.Set(x, y, color.RGBA{uint8(c.Intn("img:px", 256)), uint8(c.Intn("img:px", 256)), uint8(c.Intn("img:px", 256)), 255})
		}
	}
	var buf bytes.Buffer
	// uploads come from any encoder: not necessarily the bytes Go's default
	// encoder would produce for these pixels
	enc := png.Encoder{CompressionLevel: []png.CompressionLevel{png.DefaultCompression, png.NoCompression, png.BestSpeed, png.BestCompression}[c.Intn("img:level", 4)]}
	enc.Encode(&buf, img)
	return buf.Bytes()
}

// paramMessage builds an update message for a parameter node type.
func paramMessage(c choice.Chooser, key string) ([]byte, string) {
	j := func(v any) []byte { b, _ := json.Marshal(v); return b }
	k := shortType(key)
	// the zero value of the parameter's type is a value like any other
	// (black transparent, empty box, false, 0, "") - and differs from the
	// default for some registered types
	if strings.Contains(k, "Value[") && c.Intn("param:zero", 8) == 7 {
		switch {
		case strings.Contains(k, "Value[float64]"), strings.Contains(k, "Value[int]"):
			return []byte("0"), "0 (zero value)"
		case strings.Contains(k, "Value[string]"):
			return []byte(`""`), `"" (zero value)`
		case strings.Contains(k, "Value[bool]"):
			return []byte("false"), "false (zero value)"
		case strings.Contains(k, "Value[vector/vector2"):
			return j(vector2.Zero[float64]()), "zero vector2"
		case strings.Contains(k, "Value[vector/vector3"):
			return j(vector3.Zero[float64]()), "zero vector3"
		case strings.Contains(k, "Value[[]vector/vector3"):
			return []byte("[]"), "empty array"
		case strings.Contains(k, "geometry.AABB"):
			return j(geometry.AABB{}), "zero AABB"
		case strings.Contains(k, "coloring.WebColor"):
			return j(coloring.WebColor{}), "zero colour"
		}
	}
	switch {
	case strings.HasSuffix(k, "parameter.File"):
		n := c.Intn("file:len", 12)
		b := make([]byte, n)
		for i := range b {
			b[i] = byte(c.Intn("file:byte", 256))
		}
		return b, fmt.Sprintf("%d bytes", n)
	case strings.HasSuffix(k, "parameter.Image"):
		b := pngBytes(c)
		return b, fmt.Sprintf("png %d bytes", len(b))
	case strings.Contains(k, "Value[float64]"):
		v := genFloat(c)
		return j(v), fmt.Sprint(v)
	case strings.Contains(k, "Value[int]"):
		v := c.Intn("int", 9) - 2
		return j(v), fmt.Sprint(v)
	case strings.Contains(k, "Value[string]"):
		v := genString(c)
		return j(v), strconv.Quote(v)
	case strings.Contains(k, "Value[bool]"):
		v := choice.Bool(c, "bool")
		return j(v), fmt.Sprint(v)
	case strings.Contains(k, "Value[vector/vector2"):
		v := vector2.New(genFloat(c), genFloat(c))
		return j(v), fmt.Sprint(v)
	case strings.Contains(k, "Value[vector/vector3"):
		v := vector3.New(genFloat(c), genFloat(c), genFloat(c))
		return j(v), fmt.Sprint(v)
	case strings.Contains(k, "Value[[]vector/vector3"):
		n := c.Intn("v3arr:len", 4)
		v := make([]vector3.Float64, n)
		for i := range v {
			v[i] = vector3.New(genFloat(c), genFloat(c), genFloat(c))
		}
		return j(v), fmt.Sprint(v)
	case strings.Contains(k, "geometry.AABB"):
		v := geometry.NewAABB(vector3.New(genFloat(c), genFloat(c), genFloat(c)), vector3.New(1+float64(c.Intn("aabb", 5)), 2, 3))
		return j(v), fmt.Sprint(v)
	case strings.Contains(k, "coloring.WebColor"):
		v := coloring.WebColor{R: byte(c.Intn("col", 256)), G: byte(c.Intn("col", 256)), B: byte(c.Intn("col", 256)), A: byte(255 - c.Intn("col:a", 2)*128)}
		return j(v), fmt.Sprint(v)
	}
	return []byte("0"), "0"
}

func genMeta(c choice.Chooser, depth int) any {
	switch c.Intn("meta:kind", 6) {
	case 0:
		return float64(c.Intn("meta:num", 100)) / 4
	case 1:
		return genString(c)
	case 2:
		return choice.Bool(c, "meta:bool")
	case 3:
		if depth > 1 {
			return nil
		}
		m := map[string]any{}
		for i := c.Intn("meta:n", 3); i > 0; i-- {
			m[[]string{"x", "y", "w", "note"}[c.Intn("meta:key", 4)]] = genMeta(c, depth+1)
		}
		return m
	case 4:
		if depth > 1 {
			return "leaf"
		}
		var l []any
		for i := c.Intn("meta:n", 3); i > 0; i-- {
			l = append(l, genMeta(c, depth+1))
		}
		if l == nil {
			l = []any{}
		}
		return l
	}
	return nil
}

// ------------------------------------------------------------ shipped graphs

func shippedGraphs() [][]byte {
	var out [][]byte
	matches, _ := filepath.Glob("/repo/examples/graphs/*.json")
	if alt := os.Getenv("VERIF_REPO"); alt != "" {
		matches, _ = filepath.Glob(filepath.Join(alt, "examples/graphs/*.json"))
	}
	sort.Strings(matches)
	for _, m := range matches {
		if b, err := os.ReadFile(m); err == nil {
			out = append(out, b)
		}
	}
	return out
}

// ------------------------------------------------------------ the run

func (Scenario) Run(c choice.Chooser, opt sim.Options) (res sim.Result) {
	res = sim.Result{Evals: 0}
	var hist []string
	violate := func(class, msg string, extra map[string]any) sim.Result {
		d := map[string]any{"history": hist}
		for k, v := range extra {
			d[k] = v
		}
		res.Violation = &sim.Violation{Class: class, Msg: msg, Detail: d}
		res.Sig = fmt.Sprintf("%016x", choice.Hash64(strings.Join(hist, ";")))
		return res
	}

	w := &world{app: newApp()}
	w.inst = w.app.VerifGraphInstance()
	loadTypes(w.inst)

	// weighted type menu: parameters, harness producers, array nodes first
	var menu []int
	var weights []int
	for i, t := range typeTable {
		wt := 1
		k := shortType(t.Key)
		switch {
		case t.IsParam:
			wt = 4
		case strings.Contains(k, "c12.JoinData"), strings.Contains(k, "c12.FmtData"):
			wt = 12
		case strings.Contains(k, "c12.PrefixData"), strings.Contains(k, "c12.SplitNode"):
			wt = 8
		case strings.Contains(k, "SumData"), strings.Contains(k, "TextNodeData"):
			wt = 8
		case strings.Contains(k, "math."), strings.Contains(k, "vector.NewData"):
			wt = 3
		}
		menu = append(menu, i)
		weights = append(weights, wt)
	}

	// starting state: empty, or a graph shipped with the repository
	shipped := false
	if c.Intn("start:shipped", 24) == 23 {
		if gs := shippedGraphs(); len(gs) > 0 {
			g := gs[c.Intn("start:which", len(gs))]
			if p := try(func() {
				if err := w.app.ApplySchema(g); err != nil {
					panic(err)
				}
			}); p != "" {
				return violate("shipped-graph-does-not-load", "a graph file shipped with the repository does not load: "+p, nil)
			}
			hist = append(hist, "start from shipped graph")
			shipped = true
			res.Count("probe:shipped-graph-start", 1)
			// the property's second quantifier: a shipped file, loaded and
			// saved, is reproduced byte for byte
			var first []byte
			if p := try(func() { first = w.app.Schema() }); p != "" {
				return violate("save-panics", "saving a freshly loaded shipped graph panicked: "+p, nil)
			}
			res.Evals++
			if !bytes.Equal(first, g) {
				return violate("shipped-graph-resave-differs", "loading a graph file shipped with the repository and saving it does not reproduce the file byte for byte: "+firstDiff(string(g), string(first)), nil)
			}
			res.Count("probe:shipped-graph-resaved-identically", 1)
		}
	}

	producerSerial := 0
	wiringEdits, restartsAfterWiring := 0, 0
	maxArr := 0
	keepSession := false // autosave: check the saved file, go on with the live application
	restart := func() *sim.Result {
		res.Evals++
		var saved []byte
		if p := try(func() { saved = w.app.Schema() }); p != "" {
			r := violate("save-panics", "saving the graph panicked: "+p, nil)
			return &r
		}
		before, perr := w.structure()
		if perr != "" {
			r := violate("HARNESS/structure", perr, nil)
			return &r
		}
		artBefore := w.artifacts()
		load := func() (*world, string) {
			n := &world{app: newApp()}
			n.inst = n.app.VerifGraphInstance()
			p := try(func() {
				if err := n.app.ApplySchema(saved); err != nil {
					panic(err)
				}
			})
			return n, p
		}
		a, p := load()
		if p != "" {
			r := violate("saved-graph-does-not-load", "loading the saved graph into a fresh application failed: "+p, map[string]any{"saved": string(saved)})
			return &r
		}
		hist = append(hist, fmt.Sprintf("save (%d bytes) + restart", len(saved)))
		res.Count("fault:restart", 1)
		// 0. a specific, separately classified symptom: a File parameter
		// whose reloaded value is its saved value plus the binary data that
		// follows it in the file (jbtf.Bytes ignores the length of its
		// buffer view). Everything else at this restart is polluted by it.
		for _, id := range w.nodeIDs() {
			if !strings.HasSuffix(refutil.GetTypeWithPackage(w.inst.Node(id)), "parameter.File") {
				continue
			}
			var bv, av []byte
			if try(func() { bv = w.inst.Parameter(id).ToMessage(); av = a.inst.Parameter(id).ToMessage() }) != "" {
				continue
			}
			if len(av) > len(bv) && bytes.HasPrefix(av, bv) {
				r := violate("file-parameter-absorbs-following-buffer-data",
					fmt.Sprintf("File parameter %s held %d bytes when the graph was saved and %d bytes after reloading it: its value was extended by the binary data stored after it", id, len(bv), len(av)),
					map[string]any{"saved": clip(string(saved))})
				return &r
			}
		}
		// 1. byte-identical re-save
		var again []byte
		if p := try(func() { again = a.app.Schema() }); p != "" {
			r := violate("save-panics", "saving the reloaded graph panicked: "+p, nil)
			return &r
		}
		if !bytes.Equal(saved, again) {
			r := violate("resave-differs", "saving the reloaded graph does not reproduce the file byte for byte: "+firstDiff(string(saved), string(again)), map[string]any{"saved": string(saved), "resaved": string(again)})
			return &r
		}
		// 2. structure
		after, perr := a.structure()
		if perr != "" {
			// the graph before the save could be inspected, the reloaded one cannot
			r := violate("reloaded-graph-unreadable", "inspecting the reloaded graph through its schema panics: "+perr, map[string]any{"saved": clip(string(saved))})
			return &r
		}
		if before != after {
			r := violate("structure-differs", "the reloaded graph differs from the saved one: "+firstDiff(before, after), map[string]any{"before": before, "after": after})
			return &r
		}
		// 3. artifacts of deterministic producers
		b, p2 := load()
		if p2 == "" {
			artA, artB := a.artifacts(), b.artifacts()
			for name, ra := range artA {
				rb := artB[name]
				rz := artBefore[name]
				switch {
				case ra.Err == "not-deterministic-by-type":
					res.Count("artifact:skipped-nondeterministic-node-types", 1)
				case !ra.OK || !rb.OK || ra.Content != rb.Content:
					res.Count("artifact:skipped-nondeterministic-or-failing", 1)
				case !rz.OK:
					res.Count("artifact:skipped-failed-before-save", 1)
				case rz.Content != ra.Content:
					r := violate("artifact-differs", fmt.Sprintf("artifact %q of the reloaded graph differs from the one produced before saving: %s", name, firstDiff(rz.Content, ra.Content)), map[string]any{"before": clip(rz.Content), "after": clip(ra.Content)})
					return &r
				default:
					res.Count("artifact:compared-equal", 1)
					if strings.Contains(ra.Content, "n10=") {
						res.Count("probe:artifact-with-10+-array-inputs", 1)
					}
				}
			}
		}
		if wiringEdits > 0 {
			restartsAfterWiring++
		}
		if keepSession {
			// the edit server saves after every edit and carries on: what
			// the save path remembers between two saves must not go stale
			hist = append(hist, "(autosave: the session continues on the live application)")
			res.Count("probe:autosave-session-continues", 1)
			return nil
		}
		w = a
		return nil
	}

	maxOps := 56
	if opt.Tier == "thorough" {
		maxOps = 150 // deeper bounds
	}
	nOps := 5 + c.Intn("ops", maxOps)
	for step := 0; step < nOps; step++ {
		res.Steps++
		ids := w.nodeIDs()
		kind := choice.Pick(c, "op:kind", []int{8, 12, 4, 5, 2, 2, 3, 1, 2, 2, 2})
		if len(ids) == 0 {
			kind = 0
		}
		switch kind {
		case 0: // create
			ti := typeTable[menu[choice.Pick(c, "create:type", weights)]]
			var id string
			p := try(func() { _, id, _ = w.inst.CreateNode(ti.Key) })
			hist = append(hist, fmt.Sprintf("create %s -> %s %s", shortType(ti.Key), id, p))
			res.Count("op:create", 1)
		case 1: // connect
			in := ids[c.Intn("connect:in", len(ids))]
			if c.Intn("connect:prefer-array-node", 2) == 1 {
				// half of the time aim at a node that has an array input
				var withArr []string
				for _, id := range ids {
					if t := w.typeOf(id); t != nil {
						for _, p := range t.Inputs {
							if p.Array {
								withArr = append(withArr, id)
								break
							}
						}
					}
				}
				if len(withArr) > 0 {
					in = withArr[c.Intn("connect:arraynode", len(withArr))]
				}
			}
			ti := w.typeOf(in)
			if ti == nil || len(ti.Inputs) == 0 {
				continue
			}
			// prefer array ports: ten or more connections must be common
			var port portInfo
			var arrs []portInfo
			for _, p := range ti.Inputs {
				if p.Array {
					arrs = append(arrs, p)
				}
			}
			if len(arrs) > 0 && c.Intn("connect:array", 4) != 0 {
				port = arrs[c.Intn("connect:arrport", len(arrs))]
			} else {
				port = ti.Inputs[c.Intn("connect:port", len(ti.Inputs))]
			}
			inNode := w.inst.Node(in)
			var cands []string
			for _, o := range ids {
				ot := w.typeOf(o)
				if o == in || ot == nil || ot.OutType != port.Type {
					continue
				}
				if w.dependsOn(w.inst.Node(o), inNode, 0) {
					continue
				}
				cands = append(cands, o)
			}
			if len(cands) == 0 {
				// make a source for it next time
				for i, t := range typeTable {
					if t.IsParam && t.OutType == port.Type {
						var id string
						try(func() { _, id, _ = w.inst.CreateNode(typeTable[i].Key) })
						hist = append(hist, fmt.Sprintf("create %s -> %s (source for %s.%s)", shortType(t.Key), id, in, port.Name))
						break
					}
				}
				continue
			}
			// an array port may receive several connections at once
			times := 1
			if port.Array {
				times = 1 + c.Intn("connect:burst", 8)
			}
			for k := 0; k < times; k++ {
				out := cands[c.Intn("connect:out", len(cands))]
				name := port.Name
				if port.Array {
					n := 0
					for _, d := range inNode.Dependencies() {
						if strings.HasPrefix(d.Name(), port.Name+".") {
							n++
						}
					}
					if n >= 14 {
						break
					}
					name = fmt.Sprintf("%s.%d", port.Name, n)
					if n+1 > maxArr {
						maxArr = n + 1
					}
				}
				outPort := "Out"
				if ot := w.typeOf(out); ot != nil && len(ot.Outs) > 1 {
					// a node with several output ports: any port of the right type
					var ports []string
					for _, o := range ot.Outs {
						if o.Type == port.Type {
							ports = append(ports, o.Name)
						}
					}
					if len(ports) > 0 {
						outPort = ports[c.Intn("connect:outport", len(ports))]
						res.Count("probe:connection-from-a-second-output-port", 1)
					}
				} else if ot != nil && len(ot.Outs) == 1 {
					outPort = ot.Outs[0].Name
				}
				p := try(func() { w.inst.ConnectNodes(out, outPort, in, name) })
				hist = append(hist, fmt.Sprintf("connect %s.%s -> %s.%s %s", out, outPort, in, name, p))
				res.Count("op:connect", 1)
				wiringEdits++
			}
		case 2: // disconnect
			in := ids[c.Intn("disc:node", len(ids))]
			deps := w.inst.Node(in).Dependencies()
			if len(deps) == 0 {
				continue
			}
			d := deps[c.Intn("disc:dep", len(deps))]
			p := try(func() { w.inst.DeleteNodeInputConnection(in, d.Name()) })
			hist = append(hist, fmt.Sprintf("disconnect %s.%s %s", in, d.Name(), p))
			res.Count("op:disconnect", 1)
			if strings.Contains(d.Name(), ".") {
				res.Count("op:array-remove", 1)
			}
			wiringEdits++
		case 3: // parameter value
			var params []string
			for _, id := range ids {
				if t := w.typeOf(id); t != nil && t.IsParam {
					params = append(params, id)
				}
			}
			if len(params) == 0 {
				continue
			}
			id := params[c.Intn("param:node", len(params))]
			msg, desc := paramMessage(c, w.typeOf(id).Key)
			var err error
			p := try(func() { _, err = w.inst.UpdateParameter(id, msg) })
			hist = append(hist, fmt.Sprintf("update %s (%s) := %s %v %s", id, shortType(w.typeOf(id).Key), desc, err, p))
			res.Count("op:update-parameter", 1)
		case 4: // name / description
			var params []string
			for _, id := range ids {
				if t := w.typeOf(id); t != nil && t.IsParam {
					params = append(params, id)
				}
			}
			if len(params) == 0 {
				continue
			}
			id := params[c.Intn("param:node", len(params))]
			s := genString(c)
			if choice.Bool(c, "name-or-desc") {
				try(func() { w.inst.Parameter(id).SetDescription(s) })
				hist = append(hist, fmt.Sprintf("describe %s (%s) %q", id, shortType(w.typeOf(id).Key), s))
				res.Count("op:set-description", 1)
			} else {
				try(func() { w.inst.Parameter(id).SetName(s) })
				hist = append(hist, fmt.Sprintf("name %s %q", id, s))
				res.Count("op:set-name", 1)
			}
		case 5: // producer
			var cands []string
			for _, id := range ids {
				if t := w.typeOf(id); t != nil && t.OutType == artifactType {
					cands = append(cands, id)
				}
			}
			if len(cands) == 0 {
				continue
			}
			id := cands[c.Intn("prod:node", len(cands))]
			name := fmt.Sprintf("file%d.txt", producerSerial)
			if c.Intn("prod:oddname", 4) == 3 {
				// valid but unusual file names
				name = []string{"./report%d.txt", "out//b%d.txt", "out/../c%d.txt", "out%d/", "d %d.txt", "é%d.glb", "%d", "a%d.tar.gz", "out/deep/er/f%d.txt"}[c.Intn("prod:odd", 9)]
				name = fmt.Sprintf(name, producerSerial)
				res.Count("probe:unusual-producer-name", 1)
			}
			if names := w.inst.ProducerNames(); len(names) > 0 && c.Intn("prod:reuse", 4) == 3 {
				sort.Strings(names)
				name = names[c.Intn("prod:name", len(names))]
			} else {
				producerSerial++
			}
			p := try(func() { w.inst.SetNodeAsProducer(id, name) })
			hist = append(hist, fmt.Sprintf("producer %s := %s %s", name, id, p))
			res.Count("op:set-producer", 1)
		case 6: // metadata
			keys := []string{"notes", "notes.a", "nodes.Node-0", "nodes.Node-1.position", "camera", "camera.pos.x", "ui"}
			key := keys[c.Intn("meta:path", len(keys))]
			if c.Intn("meta:delete", 4) == 3 {
				p := try(func() { w.inst.DeleteMetadata(key) })
				hist = append(hist, fmt.Sprintf("delete metadata %s %s", key, p))
				res.Count("op:delete-metadata", 1)
			} else {
				v := genMeta(c, 0)
				if strings.HasPrefix(key, "nodes.Node-") && strings.Count(key, ".") == 1 {
					// per-node metadata is a map (the editor stores the
					// node position there); anything else crashes Schema()
					if _, ok := v.(map[string]any); !ok {
						v = map[string]any{"position": v}
					}
				}
				p := try(func() { w.inst.SetMetadata(key, v) })
				b, _ := json.Marshal(v)
				hist = append(hist, fmt.Sprintf("metadata %s := %s %s", key, b, p))
				res.Count("op:set-metadata", 1)
			}
		case 7: // delete a node nothing depends on
			id := ids[c.Intn("del:node", len(ids))]
			n := w.inst.Node(id)
			used := false
			for _, o := range ids {
				if o == id {
					continue
				}
				for _, d := range w.inst.Node(o).Dependencies() {
					if d.Dependency() == n {
						used = true
					}
				}
			}
			if used {
				continue
			}
			p := try(func() { w.inst.DeleteNode(id) })
			hist = append(hist, fmt.Sprintf("delete %s %s", id, p))
			res.Count("op:delete-node", 1)
		case 10: // the edit server's rhythm: every edit is followed by an autosave. Remove the newest node nothing depends on, add another one (ids are handed out again)
			auto := func() *sim.Result {
				keepSession = true
				r := restart()
				keepSession = false
				return r
			}
			if r := auto(); r != nil {
				return *r
			}
			ids = w.nodeIDs()
			victim := ""
			for _, id := range ids {
				n := w.inst.Node(id)
				used := false
				for _, o := range ids {
					if o == id {
						continue
					}
					for _, d := range w.inst.Node(o).Dependencies() {
						if d.Dependency() == n {
							used = true
						}
					}
				}
				if !used && (victim == "" || len(id) > len(victim) || (len(id) == len(victim) && id > victim)) {
					victim = id
				}
			}
			if victim != "" {
				p := try(func() { w.inst.DeleteNode(victim) })
				hist = append(hist, fmt.Sprintf("delete %s %s", victim, p))
				res.Count("op:delete-node", 1)
			}
			ti := typeTable[menu[choice.Pick(c, "create:type", weights)]]
			var id string
			p := try(func() { _, id, _ = w.inst.CreateNode(ti.Key) })
			hist = append(hist, fmt.Sprintf("create %s -> %s %s", shortType(ti.Key), id, p))
			res.Count("op:create", 1)
			res.Count("op:delete-then-create-between-autosaves", 1)
			if r := auto(); r != nil {
				return *r
			}
		case 9: // autosave: save, check the file against the live graph, continue in the same session
			keepSession = true
			r := restart()
			keepSession = false
			if r != nil {
				return *r
			}
		default: // save + restart
			if r := restart(); r != nil {
				return *r
			}
		}
	}
	// every history ends with a restart
	if r := restart(); r != nil {
		return *r
	}
	if maxArr >= 10 {
		res.Count("probe:array-input-with-10+-connections", 1)
	}
	res.Sig = fmt.Sprintf("%016x", choice.Hash64(strings.Join(hist, ";")))
	res.LogHash = res.Sig
	res.Nontrivial = restartsAfterWiring > 0
	if shipped {
		res.Nontrivial = true
	}
	if opt.WantSample {
		res.Sample = map[string]any{"history": hist}
	}
	return res
}

func clip(s string) string {
	if len(s) > 600 {
		return s[:600] + "..."
	}
	return s
}

func firstDiff(a, b string) string {
	i := 0
	for i < len(a) && i < len(b) && a[i] == b[i] {
		i++
	}
	lo := i - 60
	if lo < 0 {
		lo = 0
	}
	ha, hb := i+80, i+80
	if ha > len(a) {
		ha = len(a)
	}
	if hb > len(b) {
		hb = len(b)
	}
	return fmt.Sprintf("at byte %d: %q vs %q", i, a[lo:ha], b[lo:hb])
}
