#!/bin/sh
# tools/thorough_all.sh [seed]: thorough tier of every claimed property, one after the other.
cd "$(dirname "$0")/.." || exit 2
[ -n "$VP_RUN_REPO" ] && export VERIF_REPO="$VP_RUN_REPO" GOCACHE="$PWD/.work/gocache"
export VERIF_SEED=${1:-1}
for id in C14 C11 C13 C12 C01 C10; do
  ./check thorough $id > /tmp/thorough.$$.out 2>&1; code=$?
  grep -vE "^    " /tmp/thorough.$$.out | tail -6 | cut -c1-600
  echo "=== thorough $id seed=$VERIF_SEED exit=$code"
done
