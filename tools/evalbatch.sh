#!/bin/sh
# tools/evalbatch.sh <PROP> <agent-tag> [extra evalmut args]: evaluate mut1..3 of one agent, sequentially
P=$1; A=$2; shift 2
for k in 1 2 3; do
  d=/tmp/mut/out_$P$A/mut$k
  [ -f $d/meta.json ] || { echo "$d: no meta.json"; continue; }
  python3 /verif/tools/evalmut.py $d $P $P-$A$k "$@" 2>&1 | grep -v conda | tail -9
done
