#!/bin/sh
# tools/trymut.sh <patch.diff> <property> [tier]  -- apply a patch to /repo, run the check, undo the patch.
P="$1"; ID="$2"; TIER="${3:-quick}"
cd /repo || exit 2
git diff --quiet || { echo "repo dirty"; exit 2; }
git apply "$P" || { echo "patch does not apply"; exit 2; }
cp /verif/evidence/$ID.json /tmp/trymut.evidence.$ID 2>/dev/null
cd /verif && ./check "$TIER" "$ID" > /tmp/trymut.out 2>&1; code=$?
# the evidence of a run against a modified tree is not evidence about /repo: put the old file back
cp /tmp/trymut.evidence.$ID /verif/evidence/$ID.json 2>/dev/null; rm -f /tmp/trymut.evidence.$ID
git -C /repo checkout -- . ; git -C /repo clean -fdq
grep -E "^VIOLATION|^KNOWN|^HARNESS|^  class|^check .*exit=" /tmp/trymut.out | head -12
echo "exit=$code"
