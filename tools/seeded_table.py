#!/usr/bin/env python3
"""Prints the markdown table of seeded changes (DESIGN.md 7.7) from /verif/seeded/*/meta.json."""
import json, glob, os, re
def final(m):
    r = m.get("recheck") or {}
    if r.get("check_exit") is None:
        return "-"
    mm = re.search(r"runs=(\d+).*violations=(\d+)", (r.get("summary") or [""])[0])
    tail = " (%s of %s runs)" % (mm.group(2), mm.group(1)) if mm else ""
    return ("caught" if r["check_exit"] == 1 else "silent" if r["check_exit"] == 0 else "exit %s" % r["check_exit"]) + tail
rows = []
for f in sorted(glob.glob("/verif/seeded/*/meta.json")):
    m = json.load(open(f))
    sid = os.path.basename(os.path.dirname(f))
    if sid.startswith("benign-"):
        continue  # tools/benign_table.py
    classes = [l.strip().replace("class: ", "") for l in m.get("check_lines", []) if l.strip().startswith("class:")]
    ok = m.get("suite_passes_with_change") and m.get("demo_fails_with_change") and m.get("demo_passes_without_change")
    rows.append((sid, m["property"], (m.get("breaks") or "")[:150].replace("|", "/"), "yes" if ok else "NO", "**caught**" if m.get("detected_by_check") else "missed", "; ".join(classes)[:110].replace("|", "/"), m.get("note", ""), final(m)))
print("| id | change (one line) | confirmed | check | violation class(es) / note | final machinery, quick tier |")
print("|---|---|---|---|---|---|")
for r in rows:
    print("| %s | %s | %s | %s | %s %s | %s |" % (r[0], r[2], r[3], r[4], r[5], r[6], r[7]))
