#!/bin/sh
# tools/recheck_all.sh [pattern]: re-run the quick tier of the current machinery against every kept seeded change, 3 at a time
cd /verif/seeded && ls -d ${1:-*}/ | tr -d / | grep -v '^go' | xargs -P 3 -n 1 sh -c 'python3 /verif/tools/recheck_seeded.py $0 2>&1 | grep -v conda | tail -1' 
pgrep -f "benign|evalmut|recheck" >/dev/null || rm -rf /tmp/ev/gocache
echo recheck-done
