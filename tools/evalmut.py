#!/usr/bin/env python3
"""tools/evalmut.py <mutdir> <PROP> <seeded-id> [--tier quick] [--scen name]
Confirms a seeded change delivered by a sub-agent and runs the checks against it.
  mutdir: directory holding patch.diff, demo/, meta.json
Steps (all in a scratch worktree of /repo under /tmp/ev, removed afterwards):
  1. patch applies, repo builds, full existing test suite passes with the change
  2. demonstration fails with the change and passes without it
  3. apply the patch to /repo, run ./check <tier> <PROP>, undo it
Writes /verif/seeded/<seeded-id>/{patch.diff,demo/,meta.json}.
"""
import json, os, shutil, subprocess, sys, time

# scratch builds at scratch paths must not fill the shared Go build cache (a
# wave of 36 changes grew it to 120 GB): they get their own, removed by
# tools/evalqueue.sh when the queue is done
ENV = dict(os.environ, GOFLAGS="-mod=mod", GOPROXY="off", GOSUMDB="off", GOTOOLCHAIN="local", GOCACHE="/tmp/ev/gocache")

def _prune_cache(limit_gb=30):
    # scratch worktrees live at changing paths, every one of them adds its own entries to the build cache
    import subprocess as _sp
    try:
        kb = int(_sp.run("du -sk /tmp/ev/gocache 2>/dev/null | cut -f1", shell=True, capture_output=True, text=True).stdout.strip() or 0)
        if kb > limit_gb * 1024 * 1024:
            _sp.run("rm -rf /tmp/ev/gocache", shell=True)
    except Exception:
        pass
_prune_cache()

def sh(cmd, cwd=None, timeout=1800):
    t0 = time.time()
    try:
        p = subprocess.run(cmd, shell=True, cwd=cwd, env=ENV, capture_output=True, text=True, timeout=timeout)
        return p.returncode, (p.stdout + p.stderr), time.time() - t0
    except subprocess.TimeoutExpired as e:
        return 124, "TIMEOUT\n" + ((e.stdout or b"").decode(errors="replace") if isinstance(e.stdout, bytes) else (e.stdout or "")), time.time() - t0

def main():
    mutdir, prop, sid = sys.argv[1], sys.argv[2], sys.argv[3]
    tier = "quick"
    scen = None
    args = sys.argv[4:]
    if "--tier" in args:
        tier = args[args.index("--tier") + 1]
    if "--scen" in args:
        scen = args[args.index("--scen") + 1]
    skip_confirm = "--skip-confirm" in args
    meta = json.load(open(os.path.join(mutdir, "meta.json")))
    patch = os.path.abspath(os.path.join(mutdir, "patch.diff"))
    demo = os.path.join(mutdir, "demo")
    wt = "/tmp/ev/" + sid
    report = {"seeded_id": sid, "property": prop, "agent_meta": meta}
    if not skip_confirm:
        sh("git -C /repo worktree remove --force %s" % wt)
        shutil.rmtree(wt, ignore_errors=True)
        os.makedirs("/tmp/ev", exist_ok=True)
        rc, out, _ = sh("git -C /repo worktree add -q --detach %s HEAD" % wt)
        assert rc == 0, out
        try:
            rc, out, _ = sh("git apply %s" % patch, cwd=wt)
            report["patch_applies"] = rc == 0
            if rc != 0:
                report["error"] = out[-2000:]
                raise SystemExit
            rc, out, _ = sh("go build ./...", cwd=wt)
            report["builds"] = rc == 0
            rc, out, dt = sh("go test -vet=off -count=1 -timeout 25m ./... 2>&1 | grep -v 'no test files' | grep -v '^ok' ; true", cwd=wt)
            report["suite_passes_with_change"] = out.strip() == ""
            report["suite_output_if_not_ok"] = out[-1500:]
            report["suite_s"] = round(dt)
            # demonstration
            if os.path.isdir(demo):
                sh("cp -r %s/. %s/" % (demo, wt))
            cmd = meta.get("demo_cmd", "")
            # agents sometimes append prose after the command
            for sep in ("   #", "  #", " # ", "  (", "\n"):
                if sep in cmd:
                    cmd = cmd.split(sep)[0]
            cmd = cmd.strip()
            rc1, out1, _ = sh(cmd, cwd=wt, timeout=900)
            report["demo_cmd"] = cmd
            report["demo_fails_with_change"] = rc1 != 0
            report["demo_output_with_change"] = out1[-1200:]
            sh("git apply -R %s" % patch, cwd=wt)
            rc2, out2, _ = sh(cmd, cwd=wt, timeout=900)
            report["demo_passes_without_change"] = rc2 == 0
            report["demo_output_without_change"] = out2[-600:]
        finally:
            sh("git -C /repo worktree remove --force %s" % wt)
            shutil.rmtree(wt, ignore_errors=True)
    envs = ""
    if scen:
        envs = "VERIF_SCEN=%s " % scen
    if "--in-repo" in args:
        # the checks, against /repo itself (apply, run, undo)
        rc, out, _ = sh("git -C /repo diff --quiet")
        assert rc == 0, "/repo is dirty"
        rc, out, _ = sh("git -C /repo apply %s" % patch)
        assert rc == 0, out
        try:
            rc, out, dt = sh("%s./check %s %s" % (envs, tier, prop), cwd="/verif", timeout=3600)
        finally:
            sh("git -C /repo checkout -- . && git -C /repo clean -fdq")
    else:
        # parallel-safe: a private copy of /verif and a scratch worktree with
        # the patch applied (VERIF_REPO); /repo itself is not touched
        wt2 = "/tmp/ev/" + sid + "_chk"
        vcopy = "/tmp/ev/" + sid + "_verif"
        sh("git -C /repo worktree remove --force %s" % wt2)
        shutil.rmtree(wt2, ignore_errors=True)
        shutil.rmtree(vcopy, ignore_errors=True)
        rc, out, _ = sh("git -C /repo worktree add -q --detach %s HEAD" % wt2)
        assert rc == 0, out
        try:
            rc, out, _ = sh("git apply %s" % patch, cwd=wt2)
            assert rc == 0, out
            sh("rsync -a --exclude bin --exclude .work --exclude .git --exclude replays --exclude evidence --exclude seeded /verif/ %s/" % vcopy)
            rc, out, dt = sh("%sVERIF_REPO=%s ./check %s %s" % (envs, wt2, tier, prop), cwd=vcopy, timeout=3600)
            # keep the replay files of this evaluation
            os.makedirs("/verif/seeded/%s/replays" % sid, exist_ok=True)
            sh("cp %s/replays/*.json /verif/seeded/%s/replays/ 2>/dev/null; true" % (vcopy, sid))
        finally:
            sh("git -C /repo worktree remove --force %s" % wt2)
            shutil.rmtree(wt2, ignore_errors=True)
            shutil.rmtree(vcopy, ignore_errors=True)
    lines = [l for l in out.splitlines() if l.startswith(("VIOLATION", "KNOWN", "HARNESS", "  class", "check "))]
    report["check_cmd"] = "%s./check %s %s" % (("VERIF_SCEN=%s " % scen) if scen else "", tier, prop)
    report["check_exit"] = rc
    report["check_s"] = round(dt)
    report["check_lines"] = lines[:14]
    report["detected"] = rc == 1
    out_dir = "/verif/seeded/" + sid
    os.makedirs(out_dir, exist_ok=True)
    shutil.copy(patch, out_dir + "/patch.diff")
    if os.path.isdir(demo):
        shutil.rmtree(out_dir + "/demo", ignore_errors=True)
        shutil.copytree(demo, out_dir + "/demo")
    prev = {}
    if os.path.exists(out_dir + "/meta.json"):
        try:
            prev = json.load(open(out_dir + "/meta.json"))
        except Exception:
            prev = {}
    if skip_confirm:
        for k in ("patch_applies", "builds", "suite_passes_with_change", "demo_cmd", "demo_fails_with_change", "demo_passes_without_change", "demo_output_with_change", "suite_s"):
            if k in prev:
                report[k] = prev[k]
    m = {
        "property": prop,
        "breaks": meta.get("summary") or meta.get("breaks"),
        "needs_to_manifest": meta.get("needs") or meta.get("needs_to_manifest"),
        "files_touched": meta.get("files_touched"),
        "what_i_ran": {
            "confirmation": "scratch worktree of /repo HEAD: git apply patch.diff; go build ./...; go test -vet=off -count=1 ./... (whole suite); demonstration with and without the change",
            "demo_cmd": report.get("demo_cmd"),
            "check": report["check_cmd"],
        },
        "patch_applies": report.get("patch_applies"),
        "builds": report.get("builds"),
        "suite_passes_with_change": report.get("suite_passes_with_change"),
        "demo_fails_with_change": report.get("demo_fails_with_change"),
        "demo_passes_without_change": report.get("demo_passes_without_change"),
        "check_exit": report["check_exit"],
        "detected_by_check": report["detected"],
        "check_lines": report["check_lines"],
        "demo_output_with_change": report.get("demo_output_with_change", "")[-600:],
    }
    json.dump(m, open(out_dir + "/meta.json", "w"), indent=1)
    print(json.dumps({k: report.get(k) for k in ("seeded_id", "patch_applies", "builds", "suite_passes_with_change", "demo_fails_with_change", "demo_passes_without_change", "check_exit", "detected", "check_s")}, indent=None))
    for l in report["check_lines"][:8]:
        print("   ", l[:300])
    if not report.get("suite_passes_with_change", True):
        print("    SUITE:", report.get("suite_output_if_not_ok", "")[-500:])

main()
