#!/usr/bin/env python3
"""tools/regen_findings.py
For every repaired defect (fixed: lines of known_findings.txt): scratch worktree of /repo HEAD with
that one fix: commit reverted, then (a) replay the stored findings/*.json against it, (b) if a file no
longer reproduces under the current generators, run the quick tier against the worktree and store a
fresh minimised replay of the same violation class in its place. Prints one line per file."""
import json, os, re, shutil, subprocess, sys, glob
ENV = dict(os.environ, GOFLAGS="-mod=mod", GOPROXY="off", GOSUMDB="off", GOTOOLCHAIN="local", GOCACHE="/tmp/ev/gocache")

def _prune_cache(limit_gb=30):
    # scratch worktrees live at changing paths, every one of them adds its own entries to the build cache
    import subprocess as _sp
    try:
        kb = int(_sp.run("du -sk /tmp/ev/gocache 2>/dev/null | cut -f1", shell=True, capture_output=True, text=True).stdout.strip() or 0)
        if kb > limit_gb * 1024 * 1024:
            _sp.run("rm -rf /tmp/ev/gocache", shell=True)
    except Exception:
        pass
_prune_cache()
def sh(cmd, cwd=None, timeout=3600):
    p = subprocess.run(cmd, shell=True, cwd=cwd, env=ENV, capture_output=True, text=True, timeout=timeout)
    return p.returncode, p.stdout + p.stderr
FILES = {  # findings file -> fix commit (files not named in known_findings.txt lines listed here too)
 "C14-ply-ascii-fabricated-vertex.json": "f1668af", "C14-ply-ascii-hang.json": "f1668af",
 "C14-pts-fabricated-countline.json": "401c0b2", "C14-pts-fabricated-points.json": "401c0b2",
 "C11-spurious-recompute.json": "2d0e331", "C10-scanprimitives-visit-count.json": "7f4b210",
 "C10-addfieldparallel-race-blocklist.json": "d951112", "C10-addfieldparallel-race-getsection.json": "d951112",
 "C10-addfieldparallel2-mirrored.json": "2c0524f", "C10-addfieldparallel2-returns-early.json": "c9cf335",
 "C10-march-panics-on-empty-surface.json": "a68852d", "C12-array-order-lexicographic.json": "d8cc096",
 "C12-file-image-description-lost.json": "41c5e0d", "C12-binary-buffers-in-map-order.json": "f822297",
 "C01-append-aliases-across-goroutines.json": "e6f476e", "C01-append-aliases-siblings.json": "e6f476e", "C01-append-data-race.json": "e6f476e",
 "C10-scanprimitives-empty-linestrip.json": "8c9f6d7", "C13-file-parameter-retains-caller-buffer.json": "9b08c06",
}
only = sys.argv[1:]
by_fix = {}
for f, c in FILES.items():
    by_fix.setdefault(c, []).append(f)
vcopy = "/tmp/ev/regen_verif"
for fix, files in by_fix.items():
    if only and fix not in only:
        continue
    wt = "/tmp/ev/regen_" + fix
    sh("git -C /repo worktree remove --force %s" % wt); shutil.rmtree(wt, ignore_errors=True); shutil.rmtree(vcopy, ignore_errors=True)
    rc, out = sh("git -C /repo worktree add -q --detach %s HEAD" % wt); assert rc == 0, out
    try:
        rc, out = sh("git revert --no-commit %s" % fix, cwd=wt)
        if rc != 0:
            print(fix, "revert conflicts with later commits:", out.strip().splitlines()[-1][:120]); continue
        sh("rsync -a --exclude bin --exclude .work --exclude .git --exclude replays --exclude evidence --exclude seeded /verif/ %s/" % vcopy)
        stale = []
        for f in files:
            rec = json.load(open("/verif/findings/" + f)); cls = rec["result"]["violation"]["class"]
            rc, out = sh("VERIF_REPO=%s ./check replay /verif/findings/%s" % (wt, f), cwd=vcopy)
            got = re.search(r"replay: violation class=(\S+)", out)
            if got and got.group(1) == cls:
                print(fix, f, "replays: same class", cls)
            else:
                print(fix, f, "stale under the current generators (", (got.group(1) if got else "no violation"), "instead of", cls, ")"); stale.append((f, cls, rec["property"]))
        for prop in sorted(set(p for _, _, p in stale)):
            rc, out = sh("VERIF_REPO=%s ./check quick %s" % (wt, prop), cwd=vcopy)
            found = {}
            for rp in glob.glob(vcopy + "/replays/*.json"):
                r = json.load(open(rp)); found.setdefault(r["result"]["violation"]["class"], rp)
            for f, cls, p in stale:
                if p != prop: continue
                key = cls if cls in found else next((k for k in found if k.split("@")[0].split("/")[0] == cls.split("@")[0].split("/")[0]), None)
                if key:
                    shutil.copy(found[key], "/verif/findings/" + f); print(fix, f, "regenerated: class", key)
                else:
                    print(fix, f, "NOT regenerated; classes found:", sorted(found)[:6])
    finally:
        sh("git -C /repo worktree remove --force %s" % wt); shutil.rmtree(wt, ignore_errors=True); shutil.rmtree(vcopy, ignore_errors=True)
