#!/bin/sh
# tools/evalqueue.sh "<PROP><tag>" ... : evaluate all delivered mutants of the given agents, 3 at a time
for a in "$@"; do
  P=$(echo $a | cut -c1-3); T=$(echo $a | cut -c4-)
  for k in 1 2 3; do
    d=/tmp/mut/out_$a/mut$k
    [ -f $d/meta.json ] || continue
    [ -f /verif/seeded/$P-$T$k/meta.json ] && continue
    echo "$d $P $P-$T$k"
  done
done | xargs -P 3 -L 1 sh -c 'python3 /verif/tools/evalmut.py $0 $1 $2 2>&1 | grep -v conda | tail -9 > /tmp/mut/eval_$2.log'
pgrep -f "benign|evalmut|recheck" >/dev/null || rm -rf /tmp/ev/gocache
echo queue-done
