#!/bin/sh
# tools/benignthorough.sh <budget_s> <id>...   e.g. 400 C13-e1 C10-e1
# second pass over kept benign changes at the thorough tier (one at a time: the tier uses every core)
B=$1; shift
for id in "$@"; do
  P=$(echo $id | cut -c1-3); a=$(echo $id | cut -d- -f2 | cut -c1); k=$(echo $id | cut -d- -f2 | cut -c2)
  d=/tmp/mut/out_$P$a/mut$k
  BENIGN_ENV="VERIF_BUDGET_S=$B VERIF_SEED=${SEED:-5}" python3 /verif/tools/evalbenign.py $d $P $id --tier thorough 2>&1 | grep -v conda | tail -12 > /tmp/mut/evalbt_$id.log
  head -1 /tmp/mut/evalbt_$id.log
done
pgrep -f "benign|evalmut" >/dev/null || rm -rf /tmp/ev/gocache
echo thorough-queue-done
