#!/usr/bin/env python3
"""Prints the markdown table of benign changes (DESIGN.md 7.10) from /verif/seeded/benign-*/meta.json."""
import json, glob, os
print("| id | change that keeps the property (one line) | builds + suite | quick (first evaluation) | thorough (reduced budget) | final machinery, quick tier |")
print("|---|---|---|---|---|---|")
for f in sorted(glob.glob("/verif/seeded/benign-*/meta.json")):
    m = json.load(open(f))
    sid = os.path.basename(os.path.dirname(f))[len("benign-"):]
    ok = m.get("patch_applies") and m.get("builds") and m.get("suite_passes_with_change")
    q = "silent (exit 0)" if m.get("check_exit") == 0 else "exit %s" % m.get("check_exit")
    t = "-" if "thorough_check_exit" not in m else ("silent (exit 0)" if m["thorough_check_exit"] == 0 else "exit %s" % m["thorough_check_exit"])
    r = m.get("recheck") or {}
    fin = "-" if r.get("check_exit") is None else ("silent" if r["check_exit"] == 0 else "exit %s: %s" % (r["check_exit"], ";".join(r.get("classes", []))[:60]))
    print("| %s | %s | %s | %s | %s %s | %s |" % (sid, (m.get("change") or "")[:200].replace("|", "/").replace("\n", " "), "yes" if ok else "NO", q, t, (m.get("note") or "")[:400], fin))
