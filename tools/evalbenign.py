#!/usr/bin/env python3
"""tools/evalbenign.py <dir> <PROP> <id> [--tier quick]
A change that KEEPS the property (delivered by a sub-agent): confirm it builds and
passes the suite, then run the check against it; the check must stay silent (exit 0).
Writes /verif/seeded/benign-<id>/{patch.diff,meta.json}."""
import json, os, shutil, subprocess, sys, time
ENV = dict(os.environ, GOFLAGS="-mod=mod", GOPROXY="off", GOSUMDB="off", GOTOOLCHAIN="local", GOCACHE="/tmp/ev/gocache")

def _prune_cache(limit_gb=30):
    # scratch worktrees live at changing paths, every one of them adds its own entries to the build cache
    import subprocess as _sp
    try:
        kb = int(_sp.run("du -sk /tmp/ev/gocache 2>/dev/null | cut -f1", shell=True, capture_output=True, text=True).stdout.strip() or 0)
        if kb > limit_gb * 1024 * 1024:
            _sp.run("rm -rf /tmp/ev/gocache", shell=True)
    except Exception:
        pass
_prune_cache()
def sh(cmd, cwd=None, timeout=3600):
    t0 = time.time()
    p = subprocess.run(cmd, shell=True, cwd=cwd, env=ENV, capture_output=True, text=True, timeout=timeout)
    return p.returncode, p.stdout + p.stderr, time.time() - t0
d, prop, sid = sys.argv[1], sys.argv[2], sys.argv[3]
tier = sys.argv[sys.argv.index("--tier") + 1] if "--tier" in sys.argv else "quick"
meta = json.load(open(os.path.join(d, "meta.json")))
patch = os.path.abspath(os.path.join(d, "patch.diff"))
wt, vcopy = "/tmp/ev/b_%s" % sid, "/tmp/ev/b_%s_verif" % sid
sh("git -C /repo worktree remove --force %s" % wt); shutil.rmtree(wt, ignore_errors=True); shutil.rmtree(vcopy, ignore_errors=True)
os.makedirs("/tmp/ev", exist_ok=True)
rc, out, _ = sh("git -C /repo worktree add -q --detach %s HEAD" % wt); assert rc == 0, out
rep = {}
try:
    rc, out, _ = sh("git apply %s" % patch, cwd=wt); rep["patch_applies"] = rc == 0
    if rc == 0:
        rc, out, _ = sh("go build ./... && go build -tags verif ./...", cwd=wt); rep["builds"] = rc == 0
        if tier == "quick":
            rc, out, dt = sh("go test -vet=off -count=1 -timeout 25m ./... 2>&1 | grep -v 'no test files' | grep -v '^ok' ; true", cwd=wt)
            rep["suite_passes_with_change"] = out.strip() == ""; rep["suite_output_if_not_ok"] = out[-800:]
        sh("rsync -a --exclude bin --exclude .work --exclude .git --exclude replays --exclude evidence --exclude seeded /verif/ %s/" % vcopy)
        rc, out, dt = sh("VERIF_REPO=%s %s ./check %s %s" % (wt, os.environ.get("BENIGN_ENV", ""), tier, prop), cwd=vcopy, timeout=7200)
        rep["check_exit"] = rc; rep["check_s"] = round(dt)
        rep["check_lines"] = [l for l in out.splitlines() if l.startswith(("VIOLATION", "KNOWN", "HARNESS", "  class", "check ", "  "))][:30]
        os.makedirs("/verif/seeded/benign-%s/replays" % sid, exist_ok=True)
        sh("cp %s/replays/*.json /verif/seeded/benign-%s/replays/ 2>/dev/null; true" % (vcopy, sid))
finally:
    sh("git -C /repo worktree remove --force %s" % wt); shutil.rmtree(wt, ignore_errors=True); shutil.rmtree(vcopy, ignore_errors=True)
out_dir = "/verif/seeded/benign-" + sid
os.makedirs(out_dir, exist_ok=True)
shutil.copy(patch, out_dir + "/patch.diff")
m = {"property": prop, "kind": "benign change: keeps the property, the check must stay silent", "change": meta.get("summary"),
     "why_property_still_holds": meta.get("why_property_still_holds"), "incidental_behaviour_changed": meta.get("incidental_behaviour_changed"),
     "files_touched": meta.get("files_touched"),
     "what_i_ran": "scratch worktree of /repo HEAD: git apply; go build ./... (with and without -tags verif); whole suite; VERIF_REPO=<worktree> ./check %s %s on a private copy of /verif" % (tier, prop)}
if tier != "quick" and os.path.exists(out_dir + "/meta.json"):
    # a second pass at a deeper tier: keep the quick result, add this one
    m = json.load(open(out_dir + "/meta.json"))
    m[tier + "_check_exit"] = rep.get("check_exit"); m[tier + "_check_s"] = rep.get("check_s"); m[tier + "_check_lines"] = rep.get("check_lines")
    m[tier + "_silent"] = rep.get("check_exit") == 0
    m["silent"] = m.get("silent") and m[tier + "_silent"]
else:
    m.update(rep)
    m["silent"] = rep.get("check_exit") == 0
json.dump(m, open(out_dir + "/meta.json", "w"), indent=1)
print(json.dumps({k: m.get(k) for k in ("patch_applies", "builds", "suite_passes_with_change", "check_exit", "silent", "check_s")}), sid)
for l in rep.get("check_lines", [])[:10]:
    if not l.startswith("check ") or "exit=" in l:
        print("   ", l[:260])
