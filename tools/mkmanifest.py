#!/usr/bin/env python3
"""Regenerates /verif/MANIFEST.json from the table below (single source of truth)."""
import json, subprocess, os

ENV = "GOFLAGS=-mod=mod GOPROXY=off GOSUMDB=off GOTOOLCHAIN=local"

CLAIMED = {
 "C14": dict(
  engine="simio+choice (simulated disk/stream, enumerated crash points)",
  category="fault_enumeration",
  text="Every cut position of every generated valid file (PLY ascii/le/be, binary STL, .splat, SPZ v1/v2, PTS) is enumerated and the prefix is fed to the real decoder through simulated streams with seeded delivery schedules (chunking, EOF signalling, terminal error kind, empty reads); files and schedules are sampled from VERIF_SEED. Exhaustive in the crash-point dimension per file, sampled in files and deliveries.",
  design_ref="DESIGN.md 3.6",
  note="Trusts: the decode of the complete file through a plain reader as the reference; reference SPZ/PTS encoders in the harness; a decoder panic counts as rejection; hang = 2 s process CPU or read-count budget.",
  technique="deterministic simulation: enumerated crash points on a simulated disk + seeded stream delivery faults",
 ),
 "C12": dict(
  engine="choice-stream edit-history simulation with save+restart as a generated operation; the pre-save application is the reference",
  category="exploration",
  text="Generated edit histories (5-60 operations over all 76 registered node types plus four harness types (one hand-written with two output ports): create, connect incl. bursts of up to 14 connections on array ports, disconnect, parameter value/name/description for all 11 parameter types, producers, metadata, delete) run on a real generator.App through the calls the edit server makes; 'save + restart' is one more generated operation after which only the bytes of App.Schema() survive: they are loaded into fresh Apps and compared (re-saved bytes, structure through the public schema, artifacts of deterministic producers), and the history continues on the reloaded App (some saves are autosaves: the file is checked the same way, the session continues on the live App); some histories start from the shipped examples/graphs/ufo.json, which loaded and saved must reproduce its bytes. The same histories run a second time in the -race build (parallelism a library may use inside save/load is then judged by the race detector). Sampled histories.",
  design_ref="DESIGN.md 3.4",
  note="Trusts: the live pre-save application as the reference; a type-based exclusion list for nondeterministic node types in the artifact clause; parameter defaults and execution counters are not compared. One known finding (root cause in the jbtf dependency) is listed in known_findings.txt.",
  technique="deterministic simulation: seeded edit histories with crash/restart (only saved bytes survive) against the live pre-restart state",
 ),
 "C13": dict(
  engine="detsched (seeded scheduler over real goroutines) + race detector + porcupine",
  category="exploration",
  text="2-4 client tasks issue UpdateParameter / ParameterData / Artifact calls on a real graph.Instance over generated multi-level graphs; a seeded scheduler (six policies incl. PCT, starvation, stalls inside evaluation while the lock is held) decides every interleaving at the hooks around the producer lock and inside node processors; the build is -race with scheduler hand-offs invisible to ThreadSanitizer; recorded histories are checked for linearizability with porcupine against a sequential model; deadlock, bounded progress after the fault phase, panics and runtime crashes are violations. A second scenario (server-clients) runs the same graphs, client plans, schedules and oracles with every call served by the edit server's own request handlers (POST/GET /parameter/value/<id>, GET /producer/value/<name>; in-memory requests and response recorders, no socket, no autosave), so that the request path of generator/app_server_parameter.go and AppServer.ProducerEndpoint is part of what is judged. Sampled, not exhaustive.",
  design_ref="DESIGN.md 3.1, 7.11",
  note="Trusts: ThreadSanitizer's happens-before analysis over executed schedules; yield-point granularity; harness node types stand in for user nodes; porcupine Unknown is counted, never reported.",
  technique="deterministic simulation: seeded goroutine scheduler + race detector + linearizability check of the recorded history",
 ),
 "C01": dict(
  engine="choice-stream history simulation with snapshot model (sequential) + detsched and race detector (concurrent); simio.Disk for failing exports",
  category="exploration",
  text="Branching derivation histories over a pool of live meshes: operations are drawn by reflection over all 71 exported Mesh methods, 27 meshops/gausops transformers, repeat.Mesh and seven format writers onto a simulated disk that fails at a seeded offset, with receivers biased towards shared bases and results of Append; every live value is snapshotted bit for bit through public accessors when obtained and re-verified after every operation. In the concurrent mode 2-3 tasks derive from the same shared meshes under the seeded scheduler with the race detector watching. Sampled histories and schedules.",
  design_ref="DESIGN.md 3.5",
  note="Trusts: the harness never writes to memory it shares with the library; only well-formed meshes are kept in the pool (the library's behaviour on ill-formed ones follows Go map order); uncovered parameter types are reported in the evidence.",
  technique="deterministic simulation: seeded branching operation histories against a snapshot model, injected disk failures, seeded goroutine scheduler + race detector",
 ),
 "C10": dict(
  engine="detsched (seeded scheduler over real goroutines) + race detector; sequential variant as reference",
  category="exploration",
  text="Each of the seven Scan/Modify *ParallelWithPoolSize functions, AddFieldParallel, AddFieldParallel2 and MarchParallel is executed under a seeded scheduler that decides every interleaving of the library's worker goroutines (hooks after every go statement, around every channel operation and the chunk mutex, inside user callbacks and field functions), with pool sizes and worker counts as per-run knobs and element counts placed around multiples of the pool size; results are compared with the sequential counterpart (visit multiset and handed-over values, bit-identical Modify results, canvas contents cell by cell, marched triangle multisets), under the race detector with scheduler hand-offs invisible to it; deadlock, no progress, workers outliving the call, panics on one side only and runtime crashes are violations. Sampled, not exhaustive.",
  design_ref="DESIGN.md 3.2",
  note="Trusts: ThreadSanitizer over executed schedules; yield-point granularity; user callbacks race-free by construction; block-to-worker assignment inside the library follows unseamed Go map order.",
  technique="deterministic simulation: seeded goroutine scheduler + race detector, parallel variant vs sequential reference",
 ),
 "C11": dict(
  engine="choice-stream history simulation vs. from-scratch evaluator; seeded map-order seam",
  category="exploration",
  text="Generated update / re-wire / array-edit / read histories over generated DAGs of real nodes.Struct nodes; after every operation the value read is compared with a from-scratch evaluation, executions with a dirty-set model (no execution without a change upstream, at most once per operation - judged after every operation, whichever call triggered them) and versions with execution counts; the order in which a node enumerates its dependencies (Go map order) is a seeded, replayable choice. Sources are parameter.Value, nodes.ValueNode, function-initialised value nodes whose environment changes, and slice-valued value nodes whose slice is edited in place and set again; some sources have subscribers that read a node from inside the update's alert. Sampled histories.",
  design_ref="DESIGN.md 3.3",
  note="Trusts: harness processors are injective in their inputs; the permissive reading of 'changed' (equal-value updates and upstream re-wiring count as changes).",
  technique="deterministic simulation: seeded operation histories with a nondeterminism seam (map order) against an executable reference model",
 ),
}

PENDING = {
}

NA = {
 "C02": "pure function of (input mesh, operation sequence): no schedule, clock, fault or hidden cross-value state in the quantifier (that part is C01); deciding it is input generation against a reference, not simulation",
 "C03": "compares a pure function with a reference on arbitrary meshes; nothing to schedule, interrupt or fail",
 "C04": "PLY write->read equality over meshes/encodings/options is codec arithmetic; the stream only carries bytes (its interruptions are C14)",
 "C05": "OBJ round trip: single-pass index/material book-keeping over text; pure function of the input",
 "C06": "glTF/GLB structural validity: offsets, counts and dedup tables of a writer that builds a buffer in memory; pure",
 "C07": "STL size law and round trip: fixed-record codec; pure",
 "C08": "reading PLY layouts written by other tools: offset computation from a header grammar; pure",
 "C09": "closedness/orientation of the sequential marching result is a geometric property of a pure function of the field (its parallel variant is C10)",
 "C15": "splat/SPZ quantisation bounds: stride and bit-layout arithmetic; pure",
 "C16": "octree/BVH vs exhaustive search over generated element sets: pure; no fault or ordering in the quantifier",
 "C17": "quaternion/matrix/TRS/AABB algebra: pure arithmetic laws",
 "C18": "closedness and volume of primitives over their parameter ranges: pure",
 "C19": "sign, Lipschitz bound and set algebra of distance functions: pure",
 "C20": "Delaunay conditions of the triangulation: pure function of the point set",
}

UNBUILT = {
 "C01": "claimed by DESIGN.md 3.5; check not built yet in this commit (in progress)",
 "C10": "claimed by DESIGN.md 3.2; check not built yet in this commit (in progress)",
 "C11": "claimed by DESIGN.md 3.3; check not built yet in this commit (in progress)",
 "C12": "claimed by DESIGN.md 3.4; check not built yet in this commit (in progress)",
 "C13": "claimed by DESIGN.md 3.1; check not built yet in this commit (in progress)",
}

def hook_commits():
    try:
        out = subprocess.check_output(["git", "-C", "/repo", "log", "--format=%H %s"], text=True)
    except Exception:
        return []
    return [l.split()[0] for l in out.splitlines() if " hook:" in l or l.split(" ",1)[1].startswith("verif hook")]

checks = []
for pid, c in sorted(CLAIMED.items()):
    checks.append({
        "property_id": pid,
        "quick_cmd": f"./check quick {pid}",
        "thorough_cmd": f"./check thorough {pid}",
        "evidence_file": f"/verif/evidence/{pid}.json",
        "replay_cmd_template": "./check replay {path}",
        "engine": c["engine"],
        "level_claimed": {"category": c["category"], "text": c["text"], "design_ref": c["design_ref"]},
        "level_note": c["note"],
        "technique": c["technique"],
    })

na = [{"property_id": k, "reason": v} for k, v in sorted({**NA, **{k: v for k, v in UNBUILT.items() if k not in CLAIMED}}.items())]

manifest = {
 "version": 1,
 "setup_cmd": "sh ./setup.sh",
 "hooks": {
  "guard": "verif (Go build tag)",
  "enable": "go build -tags verif (the worker /verif/cmd/simrun is built with -tags verif, and with -race for scenarios that need the race detector); hook files are zz_verif_on.go (//go:build verif) / zz_verif_off.go (//go:build !verif) per package",
  "baseline_off_cmd": f"cd /repo && {ENV} go test -mod=mod -vet=off -count=1 -timeout 25m ./...",
  "source_commits": hook_commits(),
  "add_only": True,
 },
 "engines": [
  {"name": "choice", "path": "/verif/internal/choice", "serves_properties": sorted(CLAIMED), "kind_free_text": "single seeded choice stream (splitmix64 from VERIF_SEED), replay chooser, shrinker in /verif/internal/shrink"},
  {"name": "simio", "path": "/verif/internal/simio", "serves_properties": [p for p in ["C01", "C14"] if p in CLAIMED], "kind_free_text": "simulated disk (crash offset, short/torn writes) and stream (chunking, EOF signalling, terminal error kinds, empty reads, livelock police)"},
  {"name": "orchestrator", "path": "/verif/internal/orch", "serves_properties": sorted(CLAIMED), "kind_free_text": "rebuilds workers from /repo's tree, fans runs over 16 worker processes, determinism self-test across GOMAXPROCS 1/4/16, shrink + fresh-process replay, known-findings matching, evidence"},
 ],
 "checks": checks,
 "notes": "Technique family: deterministic simulation with fault injection. Exit 0 = held on everything explored; 1 = VIOLATION line with replay file; 2 = harness trouble (build failure, non-reproducing replay, determinism self-test failure, probe stuck at zero) and never prints VIOLATION. VERIF_SEED seeds everything; VERIF_BUDGET_S overrides the wall budget per scenario. Known findings / fixed defects: /verif/known_findings.txt; demonstration replays of pinned-tree defects: /verif/findings/.",
 "not_applicable": na,
}
json.dump(manifest, open("/verif/MANIFEST.json", "w"), indent=1)
print("claimed:", sorted(CLAIMED), "n/a:", len(na))
