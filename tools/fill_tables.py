#!/usr/bin/env python3
"""Regenerates the two generated tables of DESIGN.md (7.7 seeded changes, 7.10 benign changes) in place."""
import subprocess
s = open("/verif/DESIGN.md").read()
seeded = subprocess.run(["python3", "/verif/tools/seeded_table.py"], capture_output=True, text=True).stdout
benign = subprocess.run(["python3", "/verif/tools/benign_table.py"], capture_output=True, text=True).stdout
a = s.index("| id | change (one line) | confirmed | check | violation class(es) / note")
b = s.index("### 7.8 What wave 1 changed in the machinery")
s = s[:a] + seeded + "\n" + s[b:]
if "BENIGN-TABLE" in s:
    s = s.replace("BENIGN-TABLE", "<!-- benign-table:begin -->\n" + benign + "<!-- benign-table:end -->")
else:
    a = s.index("<!-- benign-table:begin -->"); b = s.index("<!-- benign-table:end -->")
    s = s[:a] + "<!-- benign-table:begin -->\n" + benign + s[b:]
open("/verif/DESIGN.md", "w").write(s)
