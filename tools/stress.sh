#!/bin/sh
# tools/stress.sh <from-seed> <to-seed> <ids...> : run the quick tier under several seeds, report any non-zero exit.
cd "$(dirname "$0")/.." || exit 2
A=$1; B=$2; shift 2
[ -n "$VP_RUN_REPO" ] && export VERIF_REPO="$VP_RUN_REPO" GOCACHE="$PWD/.work/gocache"
bad=0
for seed in $(seq $A $B); do
  for id in "$@"; do
    VERIF_SEED=$seed ./check quick $id > /tmp/stress.$$.out 2>&1; code=$?
    tail -1 /tmp/stress.$$.out | sed "s/^/seed=$seed /"
    if [ $code -ne 0 ]; then bad=$((bad+1)); echo "=== seed=$seed id=$id exit=$code"; grep -vE "^   " /tmp/stress.$$.out | head -30; fi
  done
done
echo "stress done: $bad bad"
