#!/usr/bin/env python3
"""tools/recheck_seeded.py <seeded-id>
Re-runs the quick tier of the CURRENT machinery against one kept seeded change (breaking or
benign) in a scratch worktree + private copy of /verif, and records the outcome in
/verif/seeded/<id>/meta.json under "recheck" (machinery commit, exit code, classes).
Used after the machinery changed, so that DESIGN.md 7.7/7.10 describe the final state."""
import json, os, shutil, subprocess, sys, time
ENV = dict(os.environ, GOFLAGS="-mod=mod", GOPROXY="off", GOSUMDB="off", GOTOOLCHAIN="local", GOCACHE="/tmp/ev/gocache")

def _prune_cache(limit_gb=30):
    # scratch worktrees live at changing paths, every one of them adds its own entries to the build cache
    import subprocess as _sp
    try:
        kb = int(_sp.run("du -sk /tmp/ev/gocache 2>/dev/null | cut -f1", shell=True, capture_output=True, text=True).stdout.strip() or 0)
        if kb > limit_gb * 1024 * 1024:
            _sp.run("rm -rf /tmp/ev/gocache", shell=True)
    except Exception:
        pass
_prune_cache()
def sh(cmd, cwd=None, timeout=3600):
    p = subprocess.run(cmd, shell=True, cwd=cwd, env=ENV, capture_output=True, text=True, timeout=timeout)
    return p.returncode, p.stdout + p.stderr
sid = sys.argv[1]
d = "/verif/seeded/" + sid
m = json.load(open(d + "/meta.json"))
prop = m["property"]
wt, vcopy = "/tmp/ev/r_%s" % sid, "/tmp/ev/r_%s_verif" % sid
sh("git -C /repo worktree remove --force %s" % wt); shutil.rmtree(wt, ignore_errors=True); shutil.rmtree(vcopy, ignore_errors=True)
os.makedirs("/tmp/ev", exist_ok=True)
rc, out = sh("git -C /repo worktree add -q --detach %s HEAD" % wt); assert rc == 0, out
try:
    rc, out = sh("git apply %s/patch.diff" % d, cwd=wt)
    if rc != 0:
        # made against an earlier commit of /repo (a later fix: commit touched the same lines)
        rc, out = sh("git apply --3way %s/patch.diff" % d, cwd=wt)
    if rc != 0:
        _, head = sh("git -C /verif rev-parse --short HEAD")
        m["recheck"] = {"machinery_commit": head.strip(), "check_exit": None, "note": "patch was made against an earlier /repo commit and no longer applies to HEAD: " + out.strip()[-200:]}
        json.dump(m, open(d + "/meta.json", "w"), indent=1)
        print(sid, "patch-does-not-apply-to-HEAD")
        raise SystemExit(0)
    sh("rsync -a --exclude bin --exclude .work --exclude .git --exclude replays --exclude evidence --exclude seeded /verif/ %s/" % vcopy)
    t0 = time.time()
    rc, out = sh("VERIF_REPO=%s ./check quick %s" % (wt, prop), cwd=vcopy)
    dt = time.time() - t0
finally:
    sh("git -C /repo worktree remove --force %s" % wt); shutil.rmtree(wt, ignore_errors=True); shutil.rmtree(vcopy, ignore_errors=True)
classes = sorted(set(l.strip()[len("class: "):].replace(" (not minimised)", "") for l in out.splitlines() if l.strip().startswith("class: ")))
_, head = sh("git -C /verif rev-parse --short HEAD")
m["recheck"] = {"machinery_commit": head.strip(), "check_exit": rc, "classes": classes[:8], "check_s": round(dt),
                "summary": [l for l in out.splitlines() if l.startswith("check ") and "exit=" in l][-1:]}
json.dump(m, open(d + "/meta.json", "w"), indent=1)
print(sid, "exit", rc, ";".join(classes)[:160])
